"""C09 — error contract: bad arguments and failed allocations yield errors, not damage.

  replay   TLC enumerates the cases of sm/ErrContract.tla (gen/Gen_Err.tla): per driven function
           the baseline and every boundary value of every scalar argument, with the verdict the
           header's \\expect clauses predict; harness/drv_err.c executes them on the real library
           (asanrel build, allocator interposed by harness/wrap_alloc.c).
  record   every result line is judged by TLC against the contract (trace/Trace_Err.tla: E1 error
           class + outputs untouched, E2 nothing released after a failed authentication);
           the allocator events of every run — clean, and failing allocation k = 1..n+1 — are
           stepped through sm/Heap.tla (trace/Trace_Heap.tla: E3 failed allocation => error,
           E4 nothing leaked, no bad free).
  A crash (ASan report, signal) of a case is a violation of "does not crash".
This module also hosts the machinery shared with checks/C15.py.
"""
import os, re, json, collections
import vlib

LEVEL = "fault_enumeration"

WRAP = ["-Wl,--wrap=malloc,--wrap=realloc,--wrap=free,--wrap=calloc"]
VARIANT = "asanrel"
LIB_EXTRA = ["-fno-sanitize=pointer-overflow"]
CASE_TIMEOUT = 240


# ------------------------------------------------------------------ shared machinery

def build_driver():
    # obj.c keeps embedded pointers as offsets from a possibly null base (`(octet*)0 + ofs`): clang's
    # pointer-overflow check stops every elliptic-curve function there; it is not this property's
    # subject, so that one UBSan check is off for the library of this harness
    return vlib.harness("drv_err", ["drv_err.c", "wrap_alloc.c"], VARIANT, extra=WRAP + LIB_EXTRA, lib_extra=LIB_EXTRA)


def gen_cases(ctx, pairwise=False):
    """TLC enumerates the contract's cases. -> (list of case dicts, TlcResult) or (None, r)
    pairwise (thorough tier): also every value of one argument x every value of another one."""
    r = vlib.tlc("Gen_Err", "Gen_ErrPairs.cfg" if pairwise else None, timeout=900, quiet=True, workers=4)
    if vlib.tlc_infra_failed(r) or r.rc != 0:
        return None, r
    cases, seen = [], set()
    for c in sorted(r.jsons(), key=lambda c: (c["fn"], c["q"] != "", c["p"], c["v"], c["q"], c["w"])):
        k = (c["fn"], tuple(sorted(c["a"].items())), c["q"] != "" or c["p"] == "")
        if c["q"] and k in seen:
            continue                      # (p,v,q,w) and (q,w,p,v) are the same call
        seen.add(k)
        cases.append(c)
    return cases, r


def driver_functions(drv):
    rc, out, _ = vlib.run_harness(drv, ["list"])
    return {l.split()[0]: int(l.split()[1]) for l in out.splitlines() if l.strip()}


def pick_functions(ctx, fns):
    """quick: a seeded third of the driven functions (at least 20); thorough: all."""
    fns = sorted(fns)
    only = os.environ.get("VERIF_FUNCS")             # replay / debugging: an explicit list
    if only:
        return [f for f in fns if f in only.split(",")]
    # every driven function in the quick tier too (the whole contract runs in well under a minute); VERIF_THIRD=1 restores
    # the seeded third of earlier versions
    if not ctx.quick or not os.environ.get("VERIF_THIRD"):
        return fns
    k = max(20, (len(fns) + 2) // 3)
    # persistent objects (follow-up probes) and the multi-block blob-growing drivers are part of every quick run
    always = [f for f in ("rngCreate", "bakeBSTSRunA", "bakeBSTSRunB") if f in fns]
    return sorted(set(ctx.rng.sample(fns, min(k, len(fns)))) | set(always))


def make_commands(ctx, cases, fns, faults_on_valid_sweeps):
    """-> list of dict(id, fn, mode, line, case)"""
    cmds = []

    def add(fn, mode, a, case, tamper=None, variant=0):
        i = len(cmds) + 1
        line = "call id=%d fn=%s mode=%s %s" % (i, fn, mode, " ".join("%s=%d" % kv for kv in sorted(a.items())))
        if tamper:
            line += " tamper=" + tamper
        if variant:
            line += " variant=%d" % variant
        cmds.append({"id": i, "fn": fn, "mode": mode, "line": line, "case": case, "tamper": tamper})

    # quick: fault injection on the baseline and on the largest valid value of every swept scalar
    # (bigger sizes reach the multi-block / multi-allocation paths); thorough: on every valid case
    maxvalid = {}
    for c in cases:
        if not c["viol"] and c["p"] and not c["p"].startswith("ok_") and not c.get("q"):
            k = (c["fn"], c["p"])
            maxvalid[k] = max(maxvalid.get(k, c["v"]), c["v"])
    for c in cases:
        if c["fn"] not in fns:
            # the authentication-tamper runs are few and cheap: they cover EVERY unwrap / verify function in
            # the quick tier too (the seeded third applies to argument sweeps and fault injection)
            if c["p"] == "":
                for t in sorted(c.get("tamper", [])):
                    add(c["fn"], "auth", c["a"], c, tamper=t, variant=0)
            continue
        add(c["fn"], "sweep", c["a"], c)
        valid = not c["viol"]
        if c.get("fault") and valid and (c["p"] == "" or (faults_on_valid_sweeps and not c.get("q")) or
                                         (maxvalid.get((c["fn"], c["p"])) == c["v"] and not c.get("q"))):
            add(c["fn"], "fault", c["a"], c)
        if c["p"] == "":
            # tampering is defined on the baseline shape; thorough repeats it on 3 more data variants
            for var in ([0] if not faults_on_valid_sweeps else [0, 1, 2, 3]):
                for t in sorted(c.get("tamper", [])):
                    add(c["fn"], "auth", c["a"], c, tamper=t, variant=var)
    return cmds


def run_commands(ctx, drv, cmds, tag):
    """Execute the commands in parallel shards with crash recovery.
    -> (result lines, heap event lines, crashes=[(cmd, fail_k, rc, stderr_tail)], hangs)"""
    nsh = min(8, max(1, len(cmds) // 8))
    byfn = collections.OrderedDict()
    for c in cmds:
        byfn.setdefault(c["fn"], []).append(c)
    shards = [[] for _ in range(nsh)]
    # whole functions per shard, longest first
    for i, (fn, cs) in enumerate(sorted(byfn.items(), key=lambda kv: -len(kv[1]))):
        min(shards, key=len).extend(cs)

    def work(si, todo):
        errp, heapp = ctx.path("%s_err_%d.ndjson" % (tag, si)), ctx.path("%s_heap_%d.ndjson" % (tag, si))
        for p in (errp, heapp):
            open(p, "w").close()
        crashes, hangs = [], []
        todo = list(todo)
        k0 = 1
        guard = 0
        while todo and guard < 400:
            guard += 1
            lines = [c["line"] for c in todo]
            lines[0] += " k0=%d" % k0
            rc, _, err = vlib.run_harness(drv, [errp, heapp], stdin=("\n".join(lines) + "\n").encode(),
                                          env={"VERIF_SEED": ctx.seed}, timeout=CASE_TIMEOUT)
            if rc == 0:
                break
            # which case died: the last "begin" line without a result line
            last_begin, last_res = None, None
            with open(errp) as f:
                for l in f:
                    try:
                        o = json.loads(l)
                    except Exception:
                        continue
                    if o.get("op") == "begin":
                        last_begin = o
                    else:
                        last_res = o
            if last_begin is None or (last_res and last_res.get("id") == last_begin["id"]):
                hangs.append((todo[0], rc, err[-600:]))
                break
            cid, k = last_begin["id"] // 1000, last_begin["fail"]
            idx = next((i for i, c in enumerate(todo) if c["id"] == cid), None)
            if idx is None:
                hangs.append((todo[0], rc, err[-600:]))
                break
            if rc in (124, 137):
                hangs.append((todo[idx], rc, "timeout"))
            else:
                crashes.append((todo[idx], k, rc, err if len(err) < 1600 else err[:1000] + "\n...\n" + err[-500:]))
            if todo[idx]["mode"] == "fault" and k >= 1 and k < 60:
                todo = todo[idx:]
                k0 = k + 1
                # the clean run of a resumed fault case is repeated: harmless, ids are the same
            else:
                todo = todo[idx + 1:]
                k0 = 1
        res = [o for o in vlib.read_ndjson(errp) if o.get("op") != "begin"]
        heap = vlib.read_ndjson(heapp)
        return res, heap, crashes, hangs

    outs = vlib.parallel([(lambda si=si, sh=sh: work(si, sh)) for si, sh in enumerate(shards) if sh], n=8)
    res, heap, crashes, hangs = [], [], [], []
    for r, h, c, g in outs:
        res += r; heap += h; crashes += c; hangs += g
    # resumed fault cases repeat their clean run: keep the first result line / first event group per id
    seen, res2 = set(), []
    for o in res:
        if o["id"] in seen:
            continue
        seen.add(o["id"]); res2.append(o)
    return res2, split_calls(heap), crashes, hangs


def split_calls(heap):
    """event lines -> ordered dict id -> list of lines (Reset .. CallEnd), first occurrence only"""
    calls = collections.OrderedDict()
    cur, dup = None, False
    for e in heap:
        if e["e"] == "Reset":
            dup = e["id"] in calls
            cur = [] if dup else calls.setdefault(e["id"], [])
        if cur is not None:
            cur.append(e)
    return calls


def call_fn(ev):
    for e in ev:
        if e["e"] == "CallBegin":
            return e["fn"]
    return "?"


def validate_heap(ctx, calls, invariants, tag, max_viol_per_fn=12):
    """Step the recorded calls through sm/Heap.tla, one TLC run per function (in parallel).
    -> (n_calls_accepted, n_states, violations=[(inv, fn, call_id, events)], rejects, infra)"""
    byfn = collections.OrderedDict()
    for cid, ev in calls.items():
        byfn.setdefault(call_fn(ev), []).append((cid, ev))
    cfg = ctx.path("%s_heap.cfg" % tag)
    with open(cfg, "w") as f:
        f.write("SPECIFICATION TraceSpec\nCONSTANTS\n  Blocks <- TBlocks\n  Sizes <- TSizes\n  Funcs <- TFuncs\n"
                "  SecretFuncs <- TraceSecretFuncs\n  Errs <- TErrs\nINVARIANT %s\nPOSTCONDITION TraceAccepted\n"
                % " ".join(invariants))

    def one(fn, lst):
        # fn names the shard (several functions); the function of a finding is taken from its call
        viol, rej, infra, states, accepted = [], [], [], 0, 0
        lst = list(lst)
        for it in range(max_viol_per_fn + 1):
            if not lst:
                break
            path = ctx.path("%s_heap_%s_%d.ndjson" % (tag, fn, it))
            rows, owner = [], []
            for cid, ev in lst:
                for e in ev:
                    rows.append(e); owner.append(cid)
            vlib.write_ndjson(path, rows)
            r = vlib.tlc("Trace_Heap", cfg, env={"TRACE": path}, workers=1, timeout=600, quiet=True, xmx="2g", deadlock=True)
            if r.rc == 0:
                states += r.distinct
                accepted += len(lst)
                break
            if vlib.tlc_infra_failed(r) and "Deadlock reached" not in r.out and '"@VIOL"' not in r.out:
                infra.append("%s: rc=%s %s" % (fn, r.rc, (r.error or r.violation or "")[-300:]))
                break
            m = re.search(r'<<"@VIOL",\s*"(\w+)",\s*(\d+)', r.out)
            if m:
                inv, at = m.group(1), int(m.group(2))
                at = max(1, min(at, len(rows)))
                cid = owner[at - 1]
                ev = dict(lst)[cid]
                if it < max_viol_per_fn:
                    viol.append((inv, call_fn(ev), cid, ev))
                else:
                    vlib.log("[heap] %s: more than %d violating calls, the rest is not listed" % (fn, max_viol_per_fn))
                    break
                lst = [(c, e) for c, e in lst if c != cid]
                continue
            if "Deadlock reached" in r.out:
                # a line the machine cannot take: the last state printed shows its index
                ls = re.findall(r"^/\\ l = (\d+)", r.out, re.M)
                at = max(1, min(int(ls[-1]) if ls else len(rows), len(rows)))
                cid = owner[at - 1]
                rej.append((call_fn(dict(lst)[cid]), cid, dict(lst)[cid], rows[at - 1]))
                lst = [(c, e) for c, e in lst if c != cid]
                if len(rej) > max_viol_per_fn:
                    break
                continue
            infra.append("%s: rc=%s %s" % (fn, r.rc, (r.error or r.violation or "")[-300:]))
            break
        return fn, accepted, states, viol, rej, infra

    # a few shards of whole functions (one JVM each), balanced by the number of lines
    nsh = max(1, min(8, len(byfn)))
    shards = [[] for _ in range(nsh)]
    for fn, lst in sorted(byfn.items(), key=lambda kv: -sum(len(e) for _, e in kv[1])):
        min(shards, key=lambda sh: sum(len(e) for _, e in sh)).extend(lst)
    outs = vlib.parallel([(lambda i=i, lst=lst: one("shard%d" % i, lst)) for i, lst in enumerate(shards) if lst], n=6)
    acc = sum(o[1] for o in outs)
    st = sum(o[2] for o in outs)
    viol = [v for o in outs for v in o[3]]
    rej = [v for o in outs for v in o[4]]
    infra = [v for o in outs for v in o[5]]
    return acc, st, viol, rej, infra


def exit_path(res, evs=None):
    """structural name of the exit a result line took (stable across tiers: no sizes, no positions)"""
    if res is None:
        return "?"
    if res["op"] == "fault":
        if res["failAt"] == 0 or not res["failed"]:
            return "ok"
        kind = "alloc"
        if evs and any(e["e"] == "ReallocFail" for e in evs):
            kind = "realloc"
        return "fault_%s" % kind
    if res["op"] == "auth":
        return "auth_err%d" % res["rc"] if res["rc"] else "auth_ok"
    return "ok" if res["rc"] == 0 else "err%d" % res["rc"]


def side(case):
    if not case or case["p"] == "":
        return "baseline"
    base = None
    return "%s=%s" % (case["p"], case["v"])


def class_of(case, cases_by_fn):
    """boundary class of a swept value relative to the function's valid values of that argument:
    below / above / between / valid"""
    if case["p"] == "":
        return "baseline"
    if case.get("q"):
        case = primary(case, cases_by_fn)
    vals = sorted(c["v"] for c in cases_by_fn[case["fn"]] if c["p"] == case["p"] and not c["viol"] and not c.get("q"))
    v = case["v"]
    if not case["viol"]:
        return "valid"
    if not vals:
        return "flag" if case["p"].startswith("ok_") else "any"
    if v < vals[0]:
        return "below"
    if v > vals[-1]:
        return "above"
    return "between"


def primary(case, cases_by_fn):
    """pair case -> the single-argument view that names it: the argument whose value alone is out of
    domain (first p, then q); both valid alone -> p.  Keeps the keys of the thorough tier equal to
    those of the quick tier for the same defect."""
    if not case.get("q"):
        return case
    single = {(c["p"], c["v"]): c for c in cases_by_fn[case["fn"]] if not c.get("q")}
    for a, b in ((case["p"], case["v"]), (case["q"], case["w"])):
        s1 = single.get((a, b))
        if s1 is not None and s1["viol"]:
            return dict(case, p=a, v=b, q="", w=0, viol=case["viol"], expect=case["expect"])
    return dict(case, q="", w=0)


ERRNAME = {}


def load_errnames():
    if ERRNAME:
        return ERRNAME
    src = open(os.path.join(vlib.REPO, "include/bee2/core/err.h"), encoding="utf-8", errors="replace").read()
    ERRNAME[0] = "ERR_OK"
    for m in re.finditer(r"#define\s+(ERR_\w+)\s+_ERR_REG\((\d+)\)", src):
        ERRNAME[int(m.group(2))] = m.group(1)
    return ERRNAME


def en(rc):
    return load_errnames().get(rc, "ERR_%s" % rc)


def report(ctx, key, text, data=None):
    """ctx.violation once per key and run"""
    seen = ctx.__dict__.setdefault("_reported", set())
    if key in seen:
        return
    seen.add(key)
    ctx.violation(key, text, data)


# ------------------------------------------------------------------ the check

def run(ctx):
    ev = ctx.ev
    drv = build_driver()
    cases, r = gen_cases(ctx, pairwise=not ctx.quick)
    if cases is None:
        if r.rc == 12 and "Table" in (r.violation or ""):
            ctx.note_inconclusive("ErrContract table inconsistent (baseline invalid or clause unreachable): " + (r.violation or "")[:400])
        else:
            ctx.note_inconclusive("TLC gave no cases (rc=%s): %s" % (r.rc, (r.error or r.violation or "")[-300:]))
        return
    have = driver_functions(drv)
    driven = sorted(set(c["fn"] for c in cases))
    missing = [f for f in driven if f not in have]
    if missing:
        ctx.note_inconclusive("contract drives functions the driver does not know: %s" % missing[:5])
    fns = pick_functions(ctx, [f for f in driven if f in have])
    cases_by_fn = collections.defaultdict(list)
    for c in cases:
        cases_by_fn[c["fn"]].append(c)
    cmds = make_commands(ctx, cases, set(fns), faults_on_valid_sweeps=not ctx.quick)
    byid = {c["id"]: c for c in cmds}
    ev.cov["contract_cases_enumerated_by_tlc"] = len(cases)
    ev.cov["gen_states"] = r.distinct
    ev.cov["functions_in_contract"] = len(driven)
    ev.cov["functions_driven_this_run"] = len(fns)
    ev.cov["clauses_driven_this_run"] = sum(sum(1 for k in cases_by_fn[f][0]["kinds"] if k != "prose") for f in fns)
    ev.cov["commands"] = len(cmds)

    res, calls, crashes, hangs = run_commands(ctx, drv, cmds, "c09")
    ev.cov["driver_runs"] = len(res)
    ev.cov["allocator_events"] = sum(len(v) for v in calls.values())
    for c, rc, err in hangs:
        ctx.note_inconclusive("driver stopped without a verdict at %s (rc=%s): %s" % (c["line"], rc, err[-200:]))

    # ---- crashes: "does not crash"
    seen_crash = set()
    for c, k, rc, err in crashes:
        case = c["case"]
        if not case["viol"] and c["mode"] != "auth" and k == 0:
            key = "crash:%s:valid" % c["fn"]             # valid arguments, no injected failure
        elif c["mode"] == "fault":
            key = "crash:%s:fault" % c["fn"]
        elif c["mode"] == "auth":
            key = "crash:%s:auth:%s" % (c["fn"], c["tamper"])
        else:
            key = "crash:%s:%s:%s" % (c["fn"], primary(case, cases_by_fn)["p"] or "baseline", class_of(case, cases_by_fn))
        if key in seen_crash:
            continue
        seen_crash.add(key)
        what = re.search(r"(ERROR: AddressSanitizer: [^\n]*|runtime error: [^\n]*|SUMMARY: [^\n]*)", err)
        report(ctx, key, "%s crashed (rc=%s) on `%s`%s: %s" % (c["fn"], rc, c["line"],
                      " with allocation %d failing" % k if k else "", what.group(1) if what else err[-200:]),
                      {"command": c["line"] + (" k0=%d" % k if k else ""), "stderr": err[-1200:],
                       "replay": "echo '<command>' | build/bin/drv_err-asanrel-* /dev/stdout /dev/null"})

    # ---- E1 / E2 / fault lines judged by TLC against the contract
    n, bad, r = vlib.validate_lines(ctx, "Trace_Err", res, timeout=900, workers=4)
    if n < len(res):
        ctx.note_inconclusive("Trace_Err evaluated %d of %d lines (rc=%s)" % (n, len(res), r.rc))
    ev.cov["lines_judged_by_tlc"] = n
    groups = collections.OrderedDict()
    for i in bad:
        o = res[i - 1]
        c = byid.get(o["id"] // 1000)
        key, text = classify_bad_line(o, c, cases_by_fn, calls.get(o["id"]))
        groups.setdefault(key, []).append((o, c, text))
    for key, lst in groups.items():
        o, c, text = lst[0]
        report(ctx, key, text + (" (+%d more values of the same class)" % (len(lst) - 1) if len(lst) > 1 else ""),
                      {"commands": [x[1]["line"] for x in lst if x[1]][:12], "lines": [x[0] for x in lst][:4],
                       "replay": "echo '<command>' | VERIF_SEED=%d build/bin/drv_err-asanrel-* /dev/stdout /dev/null" % ctx.seed})

    # ---- allocator traces stepped through Heap: E3, E4, bad frees
    acc, states, viol, rej, infra = validate_heap(ctx, calls, ["TypeOK", "TE3", "TE4", "TNoBadFree", "FailAtExact"], "c09")
    for t in infra:
        ctx.note_inconclusive("Trace_Heap gave no verdict: " + t)
    resby = {o["id"]: o for o in res}
    for inv, fn, cid, evs in viol:
        o = resby.get(cid)
        key = "%s:%s:%s" % (inv, fn, exit_path(o, evs))
        c = byid.get(cid // 1000)
        report(ctx, key, "%s violated by %s on exit path %s (allocation %s of %s failing, rc=%s): %s" % (
            inv, fn, exit_path(o, evs), o["failAt"] if o else "?", o["nclean"] if o else "?", en(o["rc"]) if o else "?", describe_heap(inv, evs)),
            {"command": (c["line"] if c else "") + (" k0=%d" % o["failAt"] if o and o["failAt"] else ""), "events": evs, "result": o})
    for fn, cid, evs, line in rej:
        o = resby.get(cid)
        report(ctx, "reject:%s:%s" % (fn, exit_path(o)), "allocator trace of %s is not a behaviour of sm/Heap.tla: line %s cannot be taken" % (fn, line),
                      {"events": evs, "result": o})
    ev.cov["heap_calls_accepted"] = acc
    ev.cov["heap_trace_states"] = states

    # ---- binding self-tests
    st = selftest(ctx, res, calls)
    ev.cov["selftests_rejected"] = st

    # ---- evidence
    sweeps = [o for o in res if o["op"] == "sweep"]
    faults = [o for o in res if o["op"] == "fault"]
    auths = [o for o in res if o["op"] == "auth"]
    classes = set()
    for o in sweeps:
        c = byid[o["id"] // 1000]["case"]
        classes.add((o["fn"], c["p"], class_of(c, cases_by_fn), c.get("q", ""),
                     class_of(dict(c, p=c["q"], v=c["w"], q=""), cases_by_fn) if c.get("q") else ""))
    for o in faults:
        classes.add((o["fn"], "fault", o["failAt"]))
    for o in auths:
        classes.add((o["fn"], "auth", o["tamper"]))
    ev.cov["evaluations"] = len(res)                  # executions of the real library (each judged twice: line + allocator trace)
    ev.cov["distinct_nontrivial"] = len(classes)
    ev.cov["rule"] = ("distinct (function, argument, boundary class below/valid/between/above [, second argument, its class]) of the swept calls + "
                      "(function, fault position k) of the allocation-failure runs + (function, tamper kind)")
    ev.cov["sweep_calls"] = len(sweeps)
    ev.cov["sweep_calls_out_of_domain"] = sum(1 for o in sweeps if byid[o["id"] // 1000]["case"]["viol"])
    ev.cov["fault_runs"] = len(faults)
    ev.cov["fault_runs_with_failed_allocation"] = sum(1 for o in faults if o["failed"])
    ev.cov["max_allocations_in_one_call"] = max([o["allocs"] for o in faults] or [0])
    ev.cov["auth_tamper_runs"] = len(auths)
    ev.cov["error_classes_seen"] = sorted(set(en(o["rc"]) for o in res))
    ev.cov["functions"] = fns
    ev.cov["crashes"] = len(crashes)
    for o in (sweeps[:1] + [x for x in sweeps if x["rc"]][:1] + [x for x in faults if x["failed"]][:1] + auths[:1]):
        s = dict(o)
        for k in ("pre", "post", "plain"):
            s.pop(k, None)
        ev.sample(s)
    ev.assume("pointer validity (\\expect 'all input pointers are valid') is not driven: every buffer is a valid exact-size heap block")
    ev.assume("prose clauses about overlapping buffers are C11's; clauses of kind 'prose' in ErrContract.tla are never violated by a generated case")
    ev.assume("E1 demands only what the header states: arguments without an \\expect clause are swept for crashes/leaks only")
    ev.assume("quick tier: seeded third of the driven functions, fault injection on the baseline call; thorough: all functions, "
              "fault injection on every valid swept call")


def describe_heap(inv, evs):
    end = [e for e in evs if e["e"] == "CallEnd"]
    fails = [e for e in evs if e["e"] in ("AllocFail", "ReallocFail")]
    if inv == "E4":
        return "%d block(s) still live at return (sizes %s)" % (end[0]["live"] if end else -1,
               [e["n"] for e in evs if e["e"] == "Alloc"][-3:])
    if inv == "E3":
        return "allocation attempt %s failed but the call returned ERR_OK" % [e.get("b2", e["b"]) for e in fails]
    if inv in ("W", "WEnd"):
        return "block(s) handed back / left behind unwiped: %s" % [(e["b"], e["n"]) for e in evs if e["e"] in ("Free", "Realloc") and not (e["wiped"] or e.get("zero"))]
    return inv


def classify_bad_line(o, c, cases_by_fn, evs=None):
    fn = o["fn"]
    if o["op"] == "sweep":
        case = c["case"]
        cl = class_of(case, cases_by_fn)
        case = primary(case, cases_by_fn)
        exp = [en(x) for x in case["expect"]]
        if case["viol"] and o["rc"] == 0:
            kind = "accepted"
            text = "%s(%s=%s) returns ERR_OK although the header demands %s (clause %s violated)" % (fn, case["p"], case["v"], exp, case["viol"])
        elif case["viol"] and o["rc"] not in case["expect"]:
            kind = "class"
            text = "%s(%s=%s) returns %s, the header names %s" % (fn, case["p"], case["v"], en(o["rc"]), exp)
        elif case["viol"] and o["touched"]:
            kind = "touched"
            text = "%s(%s=%s) returns %s but has written to its outputs" % (fn, case["p"], case["v"], en(o["rc"]))
        elif not case["viol"] and o["rc"] != 0:
            kind = "rejected"
            text = "%s(%s=%s) is inside the documented domain but returns %s" % (fn, case["p"] or "baseline", case["v"], en(o["rc"]))
        else:
            kind = "other"
            text = "%s(%s=%s): line rejected by ErrContract (rc=%s live=%s)" % (fn, case["p"], case["v"], en(o["rc"]), o["live"])
        return "E1:%s:%s:%s:%s" % (fn, case["p"] or "baseline", cl, kind), text
    if o["op"] == "fault":
        if o["failed"] and o["rc"] == 0:
            return "E3:%s:%s" % (fn, exit_path(o, evs)), "%s returns ERR_OK although allocation %d of %d failed" % (fn, o["failAt"], o["nclean"])
        if o["live"]:
            return "E4:%s:%s" % (fn, exit_path(o, evs)), "%s leaves %d block(s) allocated (allocation %d of %d failing, rc=%s)" % (fn, o["live"], o["failAt"], o["nclean"], en(o["rc"]))
        return "fault:%s:%s" % (fn, exit_path(o)), "%s: rc=%s without a failed allocation" % (fn, en(o["rc"]))
    if o["op"] == "auth":
        pre, post, plain = o["pre"], o["post"], o["plain"]
        if o["rc"] == 0:
            kind, text = "accepted", "tampered input (%s) accepted" % o["tamper"]
        elif contains_window(post, plain):
            kind, text = "released", "after %s the output contains the plaintext" % en(o["rc"])
        elif post != pre and any(post):
            kind, text = "junk", "after %s the output is neither its pre-image nor zeros" % en(o["rc"])
        else:
            kind, text = "class", "returns %s, not an authentication error class of the contract" % en(o["rc"])
        return "E2:%s:%s:%s" % (fn, o["tamper"], kind), "%s: %s" % (fn, text)
    return "line:%s" % fn, "unknown line"


def contains_window(post, plain):
    if not plain:
        return False
    w = min(8, len(plain))
    ps = bytes(post)
    pl = bytes(plain)
    return any(pl[i:i + w] in ps for i in range(0, len(pl) - w + 1))


def selftest(ctx, res, calls):
    """Corrupt recorded data and require TLC to reject it (binding is not vacuous)."""
    n_ok = 0
    want = []
    # (1) Pattern F: a domain error turned into ERR_OK, a valid call turned into an error
    bad_in = next((o for o in res if o["op"] == "sweep" and o["rc"] != 0), None)
    good = next((o for o in res if o["op"] == "sweep" and o["rc"] == 0), None)
    flt = next((o for o in res if o["op"] == "fault" and o["failed"] and o["rc"] != 0), None)
    au = next((o for o in res if o["op"] == "auth" and o["rc"] != 0 and len(o["plain"]) >= 8 and o["post"] != o["plain"]), None)
    rows = []
    if bad_in:
        rows.append(dict(bad_in, rc=0)); rows.append(dict(bad_in, rc=bad_in["rc"] + 1)); rows.append(dict(bad_in, touched=True))
    if good:
        rows.append(dict(good, rc=109))
    if flt:
        rows.append(dict(flt, rc=0)); rows.append(dict(flt, live=1))
    if au:
        rows.append(dict(au, post=au["plain"])); rows.append(dict(au, rc=0))
        rows.append(dict(au, post=[(x + 1) % 256 for x in au["pre"]]))
    if rows:
        n, bad, r = vlib.validate_lines(ctx, "Trace_Err", rows, timeout=300, workers=2)
        if n == len(rows) and len(bad) == len(rows):
            n_ok += len(rows)
        else:
            ctx.note_inconclusive("self-test: Trace_Err accepted corrupted lines %s" % sorted(set(range(1, len(rows) + 1)) - set(bad)))
    # (2) Pattern S: drop a Free (+ live count), success after failed alloc, double free, drop a Free only
    def find(pred):
        for cid, evs in calls.items():
            if pred(evs):
                return cid, evs
        return None, None
    muts = []
    cid, evs = find(lambda e: any(x["e"] == "Free" for x in e))
    if evs:
        i = next(i for i, x in enumerate(evs) if x["e"] == "Free")
        m = [dict(x) for x in evs if x is not evs[i]]
        m[-1]["live"] += 1; m[-1]["dirty"] = [evs[i]["b"]]
        muts.append(("E4", m))
        muts.append(("reject", [dict(x) for x in evs if x is not evs[i]]))
        muts.append(("reject", [dict(x) for x in evs[:i + 1]] + [dict(evs[i])] + [dict(x) for x in evs[i + 1:]]))
        m = [dict(x) for x in evs]
        m.insert(i + 1, {"e": "FreeUnknown", "id": cid})
        muts.append(("NoBadFree", m))
    cid, evs = find(lambda e: any(x["e"] == "AllocFail" for x in e) and e[-1]["err"] != 0)
    if evs:
        m = [dict(x) for x in evs]; m[-1]["err"] = 0
        muts.append(("E3", m))
        m = [dict(x) for x in evs]
        for x in m:
            if x["e"] == "CallBegin":
                x["failAt"] += 1
        muts.append(("reject", m))
    n_ok += run_heap_selftests(ctx, muts, ["TypeOK", "TE3", "TE4", "TNoBadFree", "FailAtExact"], "c09self")
    return n_ok


def run_heap_selftests(ctx, muts, invariants, tag):
    """muts: [(expected verdict, mutated event list)]; each is validated on its own (in parallel)"""
    def one(k, want, m):
        acc, st, viol, rej, infra = validate_heap(ctx, collections.OrderedDict([(m[0]["id"], m)]), invariants, "%s%d" % (tag, k))
        got = viol[0][0] if viol else ("reject" if rej else ("accepted" if acc else "none"))
        return want, got, infra
    n_ok = 0
    for want, got, infra in vlib.parallel([(lambda k=k, w=w, m=m: one(k, w, m)) for k, (w, m) in enumerate(muts)], n=4):
        if got == want:
            n_ok += 1
        else:
            ctx.note_inconclusive("self-test: mutated allocator trace expected %s, TLC said %s %s" % (want, got, infra[:1]))
    return n_ok
