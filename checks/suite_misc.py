# API completion, miscellaneous group (harness/drv_misc.c, spec/trace/Trace_Misc.tla): prngSTB / prngEcho / prngCOMBO as
# functions of the seed under every fragmentation, rngTestFIPS1..4 at both edges of every acceptance interval, the
# bash256 / bash384 / bash512 macro families, the one-call commands of the bash automaton, tmDate / tmDate2 / tmTime /
# tmTimeRound over a stubbed clock.  Exact-size buffers and states; the lines hold octet arrays and small integers only.
SUITES = [{"name": "misc", "sources": ["drv_misc.c"], "libs": [], "trace": "Trace_Misc", "runs": [(["record", "{tier}"], None)]}]
