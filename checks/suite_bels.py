SUITES = [{"name": "bels", "sources": ["drv_bels.c"], "libs": [], "trace": "Trace_Bels", "runs": [(["suite"], None)]}]
