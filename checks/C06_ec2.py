"""C06, binary-curve part (src/math/ec2.c: Lopez-Dahab / affine arithmetic on y^2 + xy = x^3 + A x^2 + B over GF(2^m),
and ecMulA / ecAddMulA / ecHasOrderA of src/math/ec.c on such curves).  Called from checks/C06.py.

 gf2Create() accepts only fields with m - k >= B_PER_W (no field below 2^33 / 2^65 elements), so a curve over GF(2^m)
 cannot be enumerated.  Completeness is obtained on curves with coefficients in a SUBFIELD K = GF(2^d), d | m: the
 complete group E(K) is a subgroup of E(GF(2^m)); spec/ref/EC2Embed.tla constructs K inside GF(2^m) and TLC checks it.
 (0) the ORACLE is validated before use (spec/ref/EC2Vectors.tla): on complete small curves the affine definition of
     ref/EC2.tla is a group of the right order (closure, associativity, order * P = O, #E = 0 mod 4 <=> Tr(A) = 0, Hasse),
     ScalarMul = iterated sum = Lopez-Dahab evaluation, the GF2Poly instantiation over GF(2^m) agrees with the integer one
     over K through the embedding, the fields are irreducible, n G = O on the DSTU 4145 curve over GF(2^163).
 (1) replay, exhaustive: TLC computes the complete tables of every curve (spec/gen/Gen_EC2Small.tla); harness/drv_ec2.c
     runs the library's own functions over ALL ordered pairs / all scalars 0..2*order+2 / all (x, y) of K under every
     documented aliasing and representation (Z = 1, seeded Z), every returned entry is compared with TLC's table.
 (2) record: self-contained lines (the same curves, the standard DSTU curves with boundary scalars) are recomputed /
     law-checked by TLC over GF(2)[x]/(F) (spec/trace/Trace_EC2.tla).
"""
import os, json, glob, re, time
import vlib

# ---------------------------------------------------------------------------------------------- fields and curves
# [4]p of gf2.h.  Trinomials with (m - k) % B_PER_W # 0 and = 0 (gf2MulTrinomial1 / 0), pentanomials, degrees that are a
# multiple of the word size (64: p128, p192; 32 only: p96), two and three words.  TLC checks irreducibility (EmbOk).
FIELDS = {
    "t81":  (81, 4, 0, 0),
    "t84":  (84, 5, 0, 0),
    "t105": (105, 4, 0, 0),
    "t135": (135, 11, 0, 0),
    "t159": (159, 31, 0, 0),       # m - k = 128: the word-aligned trinomial reduction
    "p96":  (96, 10, 9, 6),
    "p99":  (99, 6, 3, 1),
    "p128": (128, 7, 2, 1),
    "p192": (192, 7, 2, 1),
}
# (name, field, d, A, B): A, B elements of K = GF(2^d) (integers, bit i = coefficient of t^i); A = 0, A = 1 (the two
# special cases of ec2.c) and general A; Tr(A) = 0 (points of order 4, #E = 0 mod 4) and Tr(A) = 1 (#E = 2 mod 4).
# Attributes are COMPUTED by TLC, not assumed.
QUICK2 = [("t81d3a", "t81", 3, 0, 3), ("t159d3b", "t159", 3, 1, 1), ("p128d4", "p128", 4, 9, 5), ("p99d3", "p99", 3, 5, 6),
          ("t105d5", "t105", 5, 0, 9)]
THOROUGH2 = QUICK2 + [("t84d6", "t84", 6, 40, 7), ("p96d4", "p96", 4, 12, 9), ("p128d4u", "p128", 4, 1, 7), ("t135d5", "t135", 5, 1, 7), ("p192d6", "p192", 6, 33, 7),
                      ("t84d7", "t84", 7, 1, 3), ("p128d8", "p128", 8, 0, 29), ("t81d9", "t81", 9, 67, 21)]
ORACLE_QUICK = [("t81d3a", "t81", 3, 0, 3), ("t81d3b", "t81", 3, 1, 1), ("p128d4", "p128", 4, 9, 5), ("t105d5", "t105", 5, 1, 1)]
ORACLE_THOROUGH = ORACLE_QUICK + [("p99d3", "p99", 3, 5, 6), ("t84d6", "t84", 6, 40, 7), ("t159d3b", "t159", 3, 1, 1), ("p96d4", "p96", 4, 12, 9)]
DSTU = [("dstu163", "1.2.804.2.1.1.1.1.3.1.1.1.2.0"), ("dstu167", "1.2.804.2.1.1.1.1.3.1.1.1.2.1"), ("dstu173", "1.2.804.2.1.1.1.1.3.1.1.1.2.2"),
        ("dstu179", "1.2.804.2.1.1.1.1.3.1.1.1.2.3"), ("dstu191", "1.2.804.2.1.1.1.1.3.1.1.1.2.4"), ("dstu233", "1.2.804.2.1.1.1.1.3.1.1.1.2.5"),
        ("dstu257", "1.2.804.2.1.1.1.1.3.1.1.1.2.6"), ("dstu307", "1.2.804.2.1.1.1.1.3.1.1.1.2.7"), ("dstu367", "1.2.804.2.1.1.1.1.3.1.1.1.2.8"),
        ("dstu431", "1.2.804.2.1.1.1.1.3.1.1.1.2.9")]

CFUNC = {"addLD": "ec2AddLD", "subLD": "ec2SubLD", "addALD": "ec2AddALD", "subALD": "ec2SubALD", "addAA": "ec2AddAA", "subAA": "ec2SubAA",
         "negLD": "ec2NegLD", "dblLD": "ec2DblLD", "dblALD": "ec2DblALD", "negA": "ec2NegA", "fromAtoA": "ec2FromALD/ec2ToALD"}
BIG_N = 100          # curves with more points run in the release builds (rel, w32) with two complete scalar sweeps


def le_hex(v, no):
    return "x" + v.to_bytes(no, "little").hex()


def l2i(l):
    return sum(v << (16 * i) for i, v in enumerate(l))


class Tables2:
    """The complete tables of one curve as emitted by Gen_EC2Small (entries = indices into the point list)."""

    def __init__(self, name, gdir):
        self.name = name
        d = json.load(open(os.path.join(gdir, "pts_0.json")))
        self.raw = d
        self.kind = "gf2"
        self.n = d["n"]
        self.poly = tuple(d["poly"])
        self.m = self.poly[0]
        self.no = (self.m + 7) // 8
        self.d, self.g, self.A, self.B = d["d"], d["g"], d["A"], d["B"]
        self.phi = [l2i(x) for x in d["phi"]]                    # element code of K -> element of GF(2^m)
        codes = d["pts"]
        self.idx = {c: i for i, c in enumerate(codes)}
        self.kpts = [None] + [(c >> 15, c & 32767) for c in codes[1:]]
        self.pts = [None] + [(self.phi[x], self.phi[y]) for (x, y) in self.kpts[1:]]
        cv = lambda row: [self.idx.get(c, -2) for c in row]
        self.neg, self.dbl = cv(d["neg"]), cv(d["dbl"])
        self.add, self.sub, self.mul = [None] * self.n, [None] * self.n, [None] * self.n
        for f in glob.glob(os.path.join(gdir, "add_*.json")):
            r = json.load(open(f))
            self.add[r["i"]], self.sub[r["i"]] = cv(r["add"]), cv(r["sub"])
        for f in glob.glob(os.path.join(gdir, "mul_*.json")):
            r = json.load(open(f))
            self.mul[r["i"]] = cv(r["mul"])
        self.ison = {}
        for f in glob.glob(os.path.join(gdir, "ison_*.json")):
            r = json.load(open(f))
            for k, ys in enumerate(r["ys"]):
                self.ison[r["x0"] + k] = list(ys)
        self.mults = [(m["mo"], l2i(m["d16"])) for m in d["mults"]]
        self.complete = (all(x is not None for x in self.add) and all(x is not None for x in self.mul)
                         and all(m["zero"] for m in d["mults"]) and d["embok"] and d["nonsingular"] and d["cross"]
                         and len(self.ison) == (1 << self.d) and len(set(self.phi)) == (1 << self.d))
        self.K = 2 * self.n + 2
        self.order = [1] + [next(k for k in range(1, self.n + 1) if self.mul[i][k] == 0) for i in range(1, self.n)] if self.complete else []
        self.entries = 2 * self.n + 2 * self.n * self.n + self.n * (self.K + 1) + (1 << (2 * self.d))
        self.Acls = "A=0" if self.A == 0 else "A=1" if self.A == 1 else "A=gen"

    def cls(self, i, j):
        if i == 0 and j == 0:
            return "P=Q=O"
        if i == 0:
            return "P=O"
        if j == 0:
            return "Q=O"
        o2 = ":ord2" if self.neg[i] == i else (":ord4" if self.dbl[i] != 0 and self.neg[self.dbl[i]] == self.dbl[i] else "")
        if i == j:
            return "P=Q" + o2
        if self.neg[i] == j:
            return "P=-Q"
        if self.neg[j] == j:
            return "Q:ord2"
        if self.dbl[i] == j or self.dbl[j] == i:
            return "Q=2P" if self.dbl[i] == j else "P=2Q"
        return "generic" + (":P" + o2[1:] if o2 else "")

    def kcls(self, k):
        n = self.n
        names = {0: "0", 1: "1", 2: "2", 3: "3", n - 1: "ord-1", n: "ord", n + 1: "ord+1", 2 * n: "2ord", 2 * n + 1: "2ord+1", 2 * n + 2: "2ord+2"}
        return names.get(k, "other")

    def curve_data(self):
        return {"poly": self.poly, "d": self.d, "g": self.g, "A_in_K": self.A, "B_in_K": self.B,
                "A": hex(self.phi[self.A]), "B": hex(self.phi[self.B])}


def gen_tables(ctx, cur, workers=2, timeout=2400):
    name, fld, d, A, B = cur
    gdir = ctx.path("gen2_" + name)
    os.makedirs(gdir, exist_ok=True)
    for f in glob.glob(os.path.join(gdir, "*.json")):
        os.remove(f)
    m, k, l, l1 = FIELDS[fld]
    e = {"GEN_DIR": gdir, "GEN_SEED": ctx.seed, "GEN_M": m, "GEN_K": k, "GEN_L": l, "GEN_L1": l1, "GEN_D": d, "GEN_A": A, "GEN_B": B}
    r = vlib.tlc("Gen_EC2Small", env=e, workers=workers, timeout=timeout, quiet=True)
    vlib.log("[C06/ec2] Gen_EC2Small %s: %.0fs" % (name, r.wall))
    if vlib.tlc_infra_failed(r) or r.rc != 0 or not os.path.exists(os.path.join(gdir, "pts_0.json")):
        return None, r
    t = Tables2(name, gdir)
    return (t if t.complete else None), r


def naf_width(mo):
    bits = mo * 8
    return 6 if bits >= 336 else 5 if bits >= 120 else 4 if bits >= 40 else 3


def curve_cmd(t):
    no = t.no
    pts = b"".join(x.to_bytes(no, "little") + y.to_bytes(no, "little") for (x, y) in t.pts[1:])
    elts = b"".join(v.to_bytes(no, "little") for v in t.phi)
    out = ["curve name=%s m=%d k=%d l=%d l1=%d a=%s b=%s ord=%s pts=x%s elts=x%s" % (
        t.name, t.poly[0], t.poly[1], t.poly[2], t.poly[3], le_hex(t.phi[t.A], no), le_hex(t.phi[t.B], no), le_hex(t.n, 4), pts.hex(), elts.hex())]
    for mo, d in t.mults:
        out.append("mult mo=%d d=%s" % (mo, le_hex(d, mo)))
    return out


def commands(t, tier, w32=False):
    """The harness command stream of one curve (exec mode)."""
    out = curve_cmd(t) + ["unary", "pairs"]
    n = t.n
    bnd = sorted(set(k for k in (0, 1, 2, 3, n - 1, n, n + 1, 2 * n - 1, 2 * n, 2 * n + 1, 2 * n + 2, (n * 7) // 5, n // 2) if 0 <= k <= t.K))
    bl = ",".join(str(k) for k in bnd)
    small = n <= 24
    if w32:
        out.append("mul mo=4 hi=0 ks=all")
        out.append("hasorder mo=4 hi=0 ks=all")
    big = n > BIG_N                # two complete scalar sweeps (widths 4 and 6) instead of five; above 400 points one (width 4)
    for mo in (8, 16, 48):
        out.append("mul mo=%d hi=0 ks=%s" % (mo, "all" if (not big or mo == 8 or (mo == 48 and n <= 400)) else bl))
        out.append("mul mo=%d hi=1 ks=%s" % (mo, "all" if ((mo == 8 and not big) or small) else bl))
        out.append("hasorder mo=%d hi=0 ks=%s" % (mo, "all" if (mo == 8 and not big) else bl.replace("0,", "", 1)))
        out.append("hasorder mo=%d hi=1 ks=%s" % (mo, bl.replace("0,", "", 1)))
    ds = [(0, 0), (0, 1), (1, 0), (1, 1), (1, n - 1), (n - 1, 1), (2, n - 2), (n, 1), (1, n), (n + 1, n - 1), (3, 5), (2 * n + 2, 2 * n + 1)]
    for k, (d1, d2) in enumerate(ds):
        mo1, mo2 = (8, 8) if k % 3 == 0 else ((8, 48) if k % 3 == 1 else (16, 8))
        out.append("addmul mo1=%d mo2=%d hi=%d d1=%d d2=%d" % (mo1, mo2, k % 2, d1, d2))
    if w32:
        out.append("addmul mo1=4 mo2=4 hi=0 d1=3 d2=%d" % (n - 2))
        out.append("addmul mo1=4 mo2=8 hi=0 d1=%d d2=5" % (n + 1))
    for i in sorted(set([1, 2, max(1, n // 2), n - 1])):
        if 1 <= i <= n - 1:
            for d1 in (range(0, n + 2) if small else bnd):
                out.append("addmul mo1=8 mo2=8 hi=0 i=%d d1=%d d2=%d" % (i, d1, (d1 * 3 + 1) % (n + 2)))
    for l in sorted(set([1, n - 1])):
        out.append("addmul mo1=8 mo2=16 mo3=48 hi=1 d1=2 d2=%d d3=%d l=%d" % (n - 1, n - 1, l))
        out.append("addmul mo1=8 mo2=8 mo3=8 hi=0 d1=1 d2=1 d3=%d l=%d" % (n - 2, l))
    out.append("ison")
    return "\n".join(out) + "\n"


def is_composite(k):
    return k > 3 and any(k % q == 0 for q in range(2, int(k ** 0.5) + 1))


def compare(ctx, t, rows, build, stats):
    """Every returned entry against TLC's table.  Returns the number of entries compared."""
    n = t.n
    cnt = 0
    cd = t.curve_data()

    def bad(key, text, data):
        stats["bad"] += 1
        seen = stats.setdefault("keys", {})
        seen[key] = seen.get(key, 0) + 1
        if seen[key] == 1:
            ctx.violation(key, text, data)

    def pt(i):
        return "O" if i == 0 else ("not a point of the group" if i < 0 else "K-point %s" % (t.kpts[i],))

    for r in rows:
        op = r["op"]
        if op == "create":
            if not r.get("ok") or not r.get("valid"):
                bad("ec2:create:curve=%s" % t.name, "the curve could not be created / ec2IsValid rejected a valid curve (%s build)" % build, r)
            if r.get("ok") and r.get("tplnull") == 0:
                bad("ec2:create:tpl-not-null", "ec2CreateLD leaves a non-null tripling pointer (ec.h: the pointer to an unsupported function must be null; "
                    "description created in memory that held other data, %s build)" % build, r)
            if r.get("ok") and r.get("fvalid") == 0:
                bad("ec2:create:field-invalid:curve=%s" % t.name, "gf2IsValid rejects the field description just built by gf2Create in memory that held other data (%s build)" % build, r)
            continue
        row = r.get("row")
        zc = "Z=1" if r.get("rep") == 0 else "Z=rnd"
        if op in ("addLD", "subLD", "addALD", "subALD", "addAA", "subAA"):
            tab = t.add if op.startswith("add") else t.sub
            if r.get("diag"):
                exp = [tab[i][i] for i in range(n)]
                pairs = [(i, i) for i in range(n)]
            else:
                i = r["i"]
                exp = tab[i]
                pairs = [(i, j) for j in range(n)]
            if row == exp or (row[0] == -9 and row[1:] == exp[1:]):
                cnt += len(row) - (1 if row[0] == -9 else 0)
                continue
            for (i, j), e, g in zip(pairs, exp, row):
                if g == -9:
                    continue
                cnt += 1
                if e != g:
                    fn = CFUNC[op]
                    bad("ec2:%s:%s:alias=%s:%s:%s:curve=%s" % (fn, t.cls(i, j), r["al"], zc, t.Acls, t.name),
                        "%s(%s) on curve %s: P=#%d %s, Q=#%d %s: the library returns #%d %s, the group law gives #%d %s (%s build)"
                        % (fn, r["al"], t.name, i, pt(i), j, pt(j), g, pt(g), e, pt(e), build),
                        {"curve": cd, "row": r, "P": i, "Q": j, "expected": e, "got": g, "P_affine": [hex(v) for v in (t.pts[i] or ())],
                         "Q_affine": [hex(v) for v in (t.pts[j] or ())]})
            continue
        if op in ("negLD", "dblLD", "dblALD", "negA", "fromAtoA"):
            exp = {"negLD": t.neg, "negA": t.neg, "dblLD": t.dbl, "dblALD": t.dbl, "fromAtoA": list(range(n))}[op]
            for i, (e, g) in enumerate(zip(exp, row)):
                if g == -9:
                    continue
                cnt += 1
                if e != g:
                    fn = CFUNC[op]
                    c = "P=O" if i == 0 else ("ord2" if t.neg[i] == i else "ord4" if t.neg[t.dbl[i]] == t.dbl[i] else "generic")
                    bad("ec2:%s:%s:alias=%s:%s:%s:curve=%s" % (fn, c, r["al"], zc, t.Acls, t.name),
                        "%s on curve %s: P=#%d %s: the library returns #%d %s, the group law gives #%d %s (%s build)" % (fn, t.name, i, pt(i), g, pt(g), e, pt(e), build),
                        {"curve": cd, "row": r, "P": i, "expected": e, "got": g, "P_affine": [hex(v) for v in (t.pts[i] or ())]})
            continue
        if op in ("mulA", "hasOrderA"):
            i = r["i"]
            for k, g in zip(r["ks"], row):
                if g == -9:
                    continue
                cnt += 1
                e = t.mul[i][k]
                if op == "hasOrderA":
                    e = 1 if e == 0 else 0
                    if e == 1 and k != t.order[i] and is_composite(k):
                        continue        # ec.h: for composite q a point of order q1 | q "may be recognised"; both answers admitted
                if e != g:
                    fn = "ecMulA" if op == "mulA" else "ecHasOrderA"
                    bad("ec2:%s:w=%d:hi=%d:k=%s:%s:curve=%s" % (fn, naf_width(r["mo"]), r["hi"], t.kcls(k), "ord(P)=%d" % t.order[i] if t.order[i] <= 4 else "P", t.name),
                        "%s on binary curve %s: P=#%d %s (order %d), scalar %d%s in %d octets: library gives %d, specification %d (%s build)"
                        % (fn, t.name, i, pt(i), t.order[i], k, " + multiple of the group order" if r["hi"] else "", r["mo"], g, e, build),
                        {"curve": cd, "row": r, "k": k, "expected": e, "got": g})
            continue
        if op in ("addMulA", "addMulA3"):
            i, d1, d2 = r["i"], r["d1"], r["d2"]
            for j, g in enumerate(row):
                if g == -9:
                    continue
                cnt += 1
                e = t.add[t.mul[i][d1]][t.mul[j][d2]]
                if op == "addMulA3":
                    e = t.add[e][t.mul[r["l"]][r["d3"]]]
                if e != g:
                    bad("ec2:ecAddMulA:terms=%d:w=%d,%d:hi=%d:d=%s,%s:%s:curve=%s" % (3 if op == "addMulA3" else 2, naf_width(r["mo1"]), naf_width(r["mo2"]), r["hi"],
                                                                                   t.kcls(d1), t.kcls(d2), t.cls(i, j), t.name),
                        "ecAddMulA on binary curve %s: %d*#%d + %d*#%d%s: library gives #%d, specification #%d (%s build)"
                        % (t.name, d1, i, d2, j, " + %d*#%d" % (r["d3"], r["l"]) if op == "addMulA3" else "", g, e, build),
                        {"curve": cd, "row": r, "j": j, "expected": e, "got": g})
            continue
        if op == "isOnA":
            x = r["x"]
            cnt += 1 << t.d
            if sorted(r["ys"]) != sorted(t.ison.get(x, [])):
                bad("ec2:ec2IsOnA:x,y in K:%s:curve=%s" % ("x=0" if x == 0 else "x#0", t.name),
                    "ec2IsOnA on curve %s, x = element %d of K: accepted y = %s, the curve equation gives %s (%s build)"
                    % (t.name, x, r["ys"], t.ison.get(x, []), build), {"curve": cd, "row": r, "expected": t.ison.get(x, [])})
            continue
        if op == "isOnOut":
            cnt += r["tot"]
            e = r["tot"] if r["v"] == 0 else 0
            if r["acc"] != e:
                bad("ec2:ec2IsOnA:%s:curve=%s" % ("listed-point" if r["v"] == 0 else "coordinate-outside-field:v=%d" % r["v"], t.name),
                    "ec2IsOnA on curve %s, variant %d (0 = the listed points, 1/3/5 = x with a bit >= m set, 2/4 = y): accepted %d of %d, expected %d (%s build)"
                    % (t.name, r["v"], r["acc"], r["tot"], e, build), {"curve": cd, "row": r})
            continue
        bad("ec2:unknown-row:%s" % op, "harness emitted an unknown row", r)
    return cnt


BUILDS = {"asan": "asan", "asan-w32": "asanw32", "rel": "rel", "w32": "w32"}


def builds_for(t):
    return ["rel", "w32"] if t.n > BIG_N else ["asan", "asan-w32"]


def read_rows(path):
    rows = []
    for l in open(path):
        l = l.strip()
        if l.endswith("}"):
            try:
                rows.append(json.loads(l))
            except ValueError:
                pass
    return rows


def crash_site(err):
    fr = re.findall(r"#\d+ 0x[0-9a-f]+ in (\w+) [^\n]*/src/([\w/\.]+):(\d+)", err)
    fr = [f for f in fr if f[0] not in ("wwCopy", "wwSetZero", "memCopy", "memSet", "wwXor", "wwXor2")]
    if fr:
        return "%s@%s" % (fr[0][0], fr[0][1])
    m = re.search(r"Assertion in \S*?/src/([\w/\.]+)::(\d+)", err)
    if m:
        return "assert@%s:%s" % (m.group(1), m.group(2))
    return "unknown"


def run_exec(ctx, t, build, tier, drv, fill=None):
    """Run the command stream of one curve with exact-size stacks.  A stop inside the library is a violation with the
    crash site as key; the run is then repeated with slack on the stacks so that the values are still compared."""
    cmds = commands(t, tier, w32=build.endswith("w32"))
    outp = ctx.path("exec2_%s_%s%s.ndjson" % (t.name, build, "_fill%d" % fill if fill else ""))
    env = {"VERIF_SEED": ctx.seed}
    if fill:
        env["VERIF_FILL"] = fill
    t_0 = time.time()
    tmo = 600 if tier == "quick" else 3000
    rc, _, err = vlib.run_harness(drv, ["exec"], stdin=cmds.encode(), out_path=outp, env=env, timeout=tmo)
    rows = read_rows(outp)
    vlib.log("[C06/ec2] exec %s %s%s: %d rows, %.0fs" % (t.name, build, " fill" if fill else "", len(rows), time.time() - t_0))
    if rc in (124, 137):
        last = rows[-1] if rows else {}
        ctx.violation("ec2:no-return:after=%s:curve=%s" % (last.get("op"), t.name),
                      "drv_ec2 did not finish the commands of curve %s within %d s (%s build; the unchanged tree needs about a minute): a library call "
                      "does not return; last completed row: %s" % (t.name, tmo, build, json.dumps(last)[:300]), {"curve": t.curve_data(), "last_row": last})
        return rows
    if rc != 0:
        site = crash_site(err)
        overflow = "heap-buffer-overflow" in err
        ctx.violation("ec2:crash:%s:%s%s" % ("stack-overflow" if overflow else "abort", site, ":fill=%d" % fill if fill else ""),
                      "drv_ec2 stopped inside the library on curve %s (%s build, rc=%d, fresh memory filled with %d) after %d rows, %s: %s"
                      % (t.name, build, rc, fill or 0, len(rows), "a stack / buffer of exactly the documented size was overrun" if overflow else "abort", err[-1500:]),
                      {"curve": t.curve_data(), "stderr": err[-6000:], "last_row": rows[-1] if rows else None})
        env["VERIF_STACK_SLACK"] = 256
        env.pop("VERIF_FILL", None)
        rc, _, err = vlib.run_harness(drv, ["exec"], stdin=cmds.encode(), out_path=outp, env=env, timeout=3000)
        rows = read_rows(outp)
        if rc != 0:
            ctx.violation("ec2:crash:abort:%s" % crash_site(err), "drv_ec2 stopped inside the library on curve %s (%s build, stacks with slack, rc=%d): %s"
                          % (t.name, build, rc, err[-1500:]), {"stderr": err[-6000:]})
    return rows


# ---------------------------------------------------------------------------------------------- (0) oracle
def oracle(ctx, tier):
    cur = ORACLE_QUICK if tier == "quick" else ORACLE_THOROUGH
    cpath, fpath = ctx.path("curves2.ndjson"), ctx.path("fields2.ndjson")
    rows = []
    for (n, f, d, A, B) in cur:
        m, k, l, l1 = FIELDS[f]
        rows.append({"name": n, "m": m, "k": k, "l": l, "l1": l1, "d": d, "A": A, "B": B})
    vlib.write_ndjson(cpath, rows)
    # irreducibility and the reduction / inversion identities in every field used by this tier and in DSTU fields
    used = sorted(set(FIELDS[c[1]] for c in (QUICK2 if tier == "quick" else THOROUGH2) + list(cur)))
    fl = used + ([(163, 7, 6, 3), (233, 9, 4, 1)] if tier == "quick" else
                 [(163, 7, 6, 3), (167, 6, 0, 0), (173, 10, 2, 1), (179, 4, 2, 1), (191, 9, 0, 0), (233, 9, 4, 1),
                  (257, 12, 0, 0), (307, 8, 4, 2), (367, 21, 0, 0), (431, 5, 3, 1)])
    vlib.write_ndjson(fpath, [{"m": m, "k": k, "l": l, "l1": l1} for (m, k, l, l1) in fl])
    r = vlib.tlc("EC2Vectors", env={"CURVES2": cpath, "FIELDS2": fpath, "ASSOC_MAX": 26 if tier == "quick" else 70,
                                    "BIG_MAX": 14 if tier == "quick" else 30, "WITH_DSTU": 1, "GEN_SEED": ctx.seed},
                 workers=6 if tier == "quick" else 8, timeout=900 if tier == "quick" else 3000, quiet=True)
    bad = re.findall(r'<<\s*"@BAD",\s*(<<[^>]*>>)', r.out)
    vlib.log("[C06/ec2] EC2Vectors: %.0fs" % r.wall)
    return r, bad, cur


# ---------------------------------------------------------------------------------------------- (2) record
def record_cmds(tables, tier, suite=False):
    """quick / suite: two curves (a two-word trinomial field, the pentanomial field whose degree is a multiple of the word
    size) with one sixth of the (pair, function) combinations; thorough: four curves, every function on every pair of the
    first.  The complete sweep is the replay direction; these lines bind the GF(2^m) oracle directly."""
    out = []
    by = {t.name: t for t in tables}
    quick = suite or tier == "quick"
    first = True
    for name in (("t81d3a", "p128d4") if quick else ("t81d3a", "p99d3", "t159d3b", "p128d4")):
        t = by.get(name)
        if t is None:
            continue
        out += curve_cmd(t)
        out += ["rpairs all=%d" % (1 if (first and not quick) else 0), "runary", "rmulsub every=%d" % ((4 if first else 6) if quick else 2),
                "rison ws=%d" % (0 if suite else 1)]
        first = False
    if suite:
        std = [("dstu163", 0, 2), ("dstu257", 0, 2)]
    elif tier == "quick":
        std = [("dstu163", 0, 4), ("dstu233", 0, 2), ("dstu257", 0, 2)]
    else:
        std = [(n, 5 if n == "dstu163" else (1 if n in ("dstu167", "dstu173") else 0), 12) for n, _ in DSTU]
    oid = dict(DSTU)
    for n, heavy, laws in std:
        out.append("std name=%s oid=%s heavy=%d laws=%d" % (n, oid[n], heavy, laws))
    return "\n".join(out) + "\n"


def rec_key(row):
    f = row.get("f", "")
    cls = ""
    if row["op"] == "pair":
        P, Q = row["P"], row["Q"]
        cls = "P=Q=O" if not P and not Q else "P=O" if not P else "Q=O" if not Q else "P=Q" if P == Q else "P=-Q" if P[0] == Q[0] else "generic"
        cls = ":%s:alias=%s:%s" % (cls, row["al"], "Z=1" if row["rep"] == 0 else "Z=rnd")
    elif row["op"] == "unary":
        cls = ":alias=%s" % row["al"]
    elif row["op"] == "mul":
        cls = ":k=%s" % row["cls"]
    elif row["op"] == "ison":
        cls = ":v=%d" % row["v"]
    elif row["op"] == "group":
        return "ec2:ec2SeemsValidGroup/ec2IsValid:order-variant=%d:curve=%s" % (row["hv"], row["cv"])
    return "ec2:record:%s%s%s:curve=%s" % (CFUNC.get(f, f) or row["op"], "" if f else row["op"], cls, row["cv"])


def record(ctx, tier, drv, tables):
    outp = ctx.path("record2.ndjson")
    cmds = record_cmds(tables, tier).encode()
    env = {"VERIF_SEED": ctx.seed}
    tmo = 300 if tier == "quick" else 2400
    rc, _, err = vlib.run_harness(drv, ["record"], stdin=cmds, out_path=outp, env=env, timeout=tmo)
    crash = None
    if rc in (124, 137):
        rows = read_rows(outp)
        last = rows[-1] if rows else {}
        ctx.violation("ec2:no-return:record:after=%s:%s" % (last.get("op"), last.get("cv")),
                      "drv_ec2 record did not finish within %d s (the unchanged tree needs seconds): a library call does not return (e.g. dstuPointGen "
                      "waits for a point whose n-fold is O); last completed line: %s" % (tmo, json.dumps(last)[:300]), {"last_line": last})
        rc, err = 0, ""
    elif rc != 0:
        crash = (rc, err)
        env["VERIF_STACK_SLACK"] = 256
        rc, _, err = vlib.run_harness(drv, ["record"], stdin=cmds, out_path=outp, env=env, timeout=tmo)
    rows = read_rows(outp)
    n, bad, r = vlib.validate_lines(ctx, "Trace_EC2", outp, timeout=1200 if tier == "quick" else 6000, workers=8 if tier == "quick" else None)
    # binding self-test: one corrupted field per operation kind must be rejected
    mut, seen = [], set()
    for row in rows:
        k = (row["op"], row.get("f"))
        if k in seen or len(mut) >= 16 or row.get("heavy"):
            continue
        m = json.loads(json.dumps(row))
        if row["op"] in ("pair", "unary", "mulsub", "addmulsub", "law_addmul") and m.get("R"):
            m["R"][0][0] ^= 1
        elif row["op"] == "hasordersub" and not row["res"]:          # k P # O: TRUE must be rejected
            m["res"] = not m["res"]
        elif row["op"] == "ison" and row["v"] in (0, 3):
            m["res"] = not m["res"]
            k = (row["op"], row["v"])
            if k in seen:
                continue
        elif row["op"] in ("law_succ", "law_neg") and m.get("R2"):
            m["R2"][1][0] ^= 1
        elif row["op"] == "law_order":
            m["mul_affine"] = True
        elif row["op"] == "group":
            m["seems"] = not m["seems"]
        else:
            continue
        seen.add(k)
        mut.append(m)
    mp = ctx.path("record2_mut.ndjson")
    vlib.write_ndjson(mp, mut)
    n2, bad2, r2 = vlib.validate_lines(ctx, "Trace_EC2", mp, timeout=600, workers=4)
    vlib.log("[C06/ec2] Trace_EC2: %d lines %.0fs, self-test %.0fs" % (len(rows), r.wall, r2.wall))
    return rows, n, bad, r, crash, (len(mut), n2, len(bad2), r2), (rc, err)


# ---------------------------------------------------------------------------------------------- the part
def build_drivers(ctx):
    """The harness binaries (and, through them, the library variants).  Called from the main thread BEFORE the GF(p) part
    and this part run concurrently: vlib.build is not safe against two threads building the same variant."""
    builds = list(BUILDS) if not ctx.quick else ["asan", "asan-w32"]
    return {b: vlib.harness("drv_ec2", ["drv_ec2.c"], BUILDS[b]) for b in builds}


def run_part(ctx, drvs=None):
    """Returns (states, transitions, validated) and fills ctx.ev.cov["ec2_*"]."""
    ev = ctx.ev
    tier = "quick" if ctx.quick else "thorough"
    t0 = time.time()
    states = trans = 0
    curves = QUICK2 if ctx.quick else THOROUGH2
    builds = list(BUILDS) if not ctx.quick else ["asan", "asan-w32"]
    drvs = drvs or build_drivers(ctx)
    # everything runs concurrently: (0) the oracle validation, the tables of every curve, and - as soon as the tables of a
    # curve exist - the harness runs of that curve; the record lines need the tables of two curves.  Mismatches are judged
    # only after the oracle has been validated (a failing oracle makes the run inconclusive).
    import concurrent.futures as cf
    rec_names = ("t81d3a", "p128d4") if ctx.quick else ("t81d3a", "p99d3", "t159d3b", "p128d4")
    fill_names = ("t81d3a", "t159d3b")
    with cf.ThreadPoolExecutor(max_workers=4 * len(curves) + 8) as ex:
        sem_gen = __import__("threading").Semaphore(7 if ctx.quick else 4)
        sem_run = __import__("threading").Semaphore(8)

        def gen(c):
            with sem_gen:
                return gen_tables(ctx, c, workers=2 if ctx.quick else 4)
        f_or = ex.submit(oracle, ctx, tier)
        f_gen = {c[0]: ex.submit(gen, c) for c in curves}

        def chain(name, slot):
            t, _ = f_gen[name].result()
            if t is None:
                return None
            with sem_run:
                if slot == 2:
                    # fresh memory filled with 0xFF (outside every field whose degree is not a multiple of the word size): a
                    # debug precondition that looks at the unspecified X, Y of a point at infinity fires on admissible inputs
                    return (t, "asan", run_exec(ctx, t, "asan", tier, drvs["asan"], fill=255))
                b = builds_for(t)[slot]
                return (t, b, run_exec(ctx, t, b, tier, drvs[b]))

        def rec_job():
            ts = [f_gen[n].result()[0] for n in rec_names if n in f_gen]
            with sem_run:
                return record(ctx, tier, drvs["asan"], [x for x in ts if x is not None])
        f_rec = ex.submit(rec_job)
        f_ex = [ex.submit(chain, c[0], s) for c in curves for s in ((0, 1, 2) if c[0] in fill_names else (0, 1))]
        ro, obad, ocur = f_or.result()
        res = [f_gen[c[0]].result() for c in curves]
        outs = [f.result() for f in f_ex]
        rec = f_rec.result()
    outs = sorted([o for o in outs if o is not None], key=lambda o: (-o[0].n, o[0].name, o[1]))
    states += ro.distinct
    trans += ro.generated
    ev.cov["ec2_oracle_cases_evaluated"] = max(0, (ro.distinct - 1) // 2)
    ev.cov["ec2_oracle_curves"] = [c[0] for c in ocur] + ["DSTU 4145 curve over GF(2^163): n P = O"]
    if ro.rc != 0 or obad or ro.distinct < 3:
        ctx.note_inconclusive("the reference semantics ref/EC2.tla fails its own validation (EC2Vectors rc=%s, bad cases %s): specification error" % (ro.rc, obad[:5]))
        return states, trans, 0
    vlib.log("[C06/ec2] oracle validated: %d cases, %.0fs" % ((ro.distinct - 1) // 2, time.time() - t0))
    tables = []
    for c, (t, r) in zip(curves, res):
        states += r.distinct
        trans += r.generated
        if t is None:
            ctx.note_inconclusive("Gen_EC2Small gave no complete tables for %s (rc=%s): %s" % (c[0], r.rc, (r.violation or r.error or "")[:300]))
        else:
            tables.append(t)
    stats = {"bad": 0}
    compared = 0
    per_op = {}
    for t, b, rows in outs:
        compared += compare(ctx, t, rows, b, stats)
        for r in rows:
            per_op[r["op"]] = per_op.get(r["op"], 0) + 1

    class Probe:
        def __init__(self): self.keys = []
        def violation(self, key, text, data=None): self.keys.append(key)
    pr = Probe()
    for t, b, rows in outs[:1]:
        alt = [json.loads(json.dumps(r)) for r in rows if r["op"] in ("addLD", "subALD", "mulA", "dblLD")][:400:37]
        for r in alt:
            r["row"][len(r["row"]) // 2] = (r["row"][len(r["row"]) // 2] + 1) % t.n
        st = {"bad": 0}
        compare(pr, t, alt, b, st)
        ev.cov["ec2_selftest_replay_altered_entries"] = len(alt)
        ev.cov["ec2_selftest_replay_reported"] = st["bad"]
        if st["bad"] < len(alt) or not pr.keys:
            ctx.note_inconclusive("binding self-test (ec2 replay): %d altered entries, %d reported" % (len(alt), st["bad"]))
    # (2)
    rows, n, bad, r, crash, (nm, n2, nb2, r2), (rc2, err2) = rec
    states += r.distinct + r2.distinct
    trans += r.generated + r2.generated
    if crash:
        site = crash_site(crash[1])
        ctx.violation("ec2:crash:%s:%s" % ("stack-overflow" if "heap-buffer-overflow" in crash[1] else "abort", site),
                      "drv_ec2 record stopped inside the library with exact-size stacks (rc=%d): %s" % (crash[0], crash[1][-1500:]), crash[1][-6000:])
    if rc2 != 0:
        ctx.violation("ec2:crash:abort:%s" % crash_site(err2), "drv_ec2 record stopped inside the library (stacks with slack, rc=%d): %s" % (rc2, err2[-1500:]), err2[-6000:])
    if n < len(rows):
        ctx.note_inconclusive("Trace_EC2 evaluated %d of %d recorded lines (rc=%s)" % (n, len(rows), r.rc))
    for i in bad:
        row = rows[i - 1]
        ctx.violation(rec_key(row), "recorded call on a binary curve differs from the group law / the law it must satisfy (line %d of record2.ndjson, op %s on %s)"
                      % (i, row["op"], row["cv"]), {"line": row, "how": "re-run ./check C06; the line is recomputed by spec/trace/Trace_EC2.tla"})
    ev.cov["ec2_selftest_record_corrupted_lines"] = nm
    ev.cov["ec2_selftest_record_rejected"] = nb2
    if n2 == nm and nb2 != nm:
        ctx.note_inconclusive("binding self-test (ec2 record): %d of %d corrupted lines were not rejected" % (nm - nb2, nm))
    rec_ops = {}
    for row in rows:
        rec_ops[row["op"]] = rec_ops.get(row["op"], 0) + 1
    ev.cov["ec2_mismatches_by_key"] = dict(sorted(stats.get("keys", {}).items())[:40])
    ev.cov["ec2_curves"] = [{"name": t.name, "field [m,k,l,l1]": list(t.poly), "subfield degree": t.d, "points": t.n, "A": t.Acls,
                             "Tr(A)": t.raw["trA"], "max point order": max(t.order)} for t in tables]
    ev.cov["ec2_builds"] = builds
    ev.cov["ec2_rows_by_operation"] = per_op
    ev.cov["ec2_record_lines_by_operation"] = rec_ops
    ev.cov["ec2_table_entries_from_tlc"] = sum(t.entries for t in tables)
    ev.cov["ec2_table_entries_compared"] = compared
    ev.cov["ec2_record_lines_validated"] = n
    for t in tables[:1]:
        ev.sample({"binary curve": t.name, "field": list(t.poly), "K": "GF(2^%d), g = %s" % (t.d, bin(t.g)), "A in K": t.A, "B in K": t.B, "points": t.n,
                   "P1 in K": t.kpts[1], "P1 + P1": t.kpts[t.add[1][1]] if t.add[1][1] else "O", "order(P1)": t.order[1]})
    ev.assume("binary curves: gf2Create accepts no field with fewer than 2^33 / 2^65 elements, so the complete curves are E(GF(2^d)) for a subfield GF(2^d) of "
              "GF(2^m), embedded by ref/EC2Embed.tla; TLC checks in this run that the embedding is a field homomorphism (g irreducible, g(gamma) = 0, F irreducible) "
              "and that the law over GF(2^m) agrees with the law over GF(2^d) on seeded pairs of every curve")
    ev.assume("ec2.h documents no buffer overlap for ec2AddAA / ec2SubAA / ec2NegA: they are called with an output overlapping no input; the ec_o functions "
              "are called with c = a, c = b and a = b (c distinct); a = b = c is not generated")
    ev.assume("for the DSTU curves other than the first one the standard fixes no base point: a seeded point from dstuPointGen is used, TLC checks that it is "
              "on the curve; the law lines take the standard's n as its order (n P = O is evaluated by TLC on the 163-bit curve)")
    vlib.log("[C06/ec2] %d entries compared, %d record lines, %d bad, %.0fs" % (compared, n, stats["bad"] + len(bad), time.time() - t0))
    return states, trans, compared + n
