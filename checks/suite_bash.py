# bash / brng / botp one-shot and step lines (C03's record runs): hash levels, automaton, CTR / HMAC generators with
# counter-wrap synchro values, one-time passwords; word-size independent octet lines judged by Trace_Bash
SUITES = [{"name": "bash", "sources": ["drv_bash.c"], "libs": [], "trace": "Trace_Bash",
           "runs": [(["record", "bash", "quick"], None), (["record", "brng", "quick"], None), (["record", "botp", "quick"], None)]}]
