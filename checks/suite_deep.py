# exact stack depths of the arithmetic layers (harness/drv_deep.c): sensors only, no value judgement => C07 only
SUITES = [{"name": "deep", "sources": ["drv_deep.c"], "libs": [], "trace": None, "only": ["C07"], "runs": [(["run", "{tier}"], None)]}]
