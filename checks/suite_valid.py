"""C12 generators (shared by checks/C12.py and by the C07 / C19 re-executions through SUITES).

Everything here builds INPUTS and the EVIDENCE that lets TLC decide them cheaply (a factor of a composite, a
Pocklington certificate of a prime, the name of the violated condition).  Nothing here decides a verdict:
every line is judged by spec/trace/Trace_Valid.tla.  Structure (which field is perturbed, which boundary,
which class of number) is enumerated; `rng` (seeded by VERIF_SEED) only picks data.
"""
import os, sys, json, math, random
sys.path.insert(0, os.path.join(os.path.dirname(os.path.abspath(__file__)), "..", "tools"))
import vlib
import pricert

HERE = os.path.dirname(os.path.abspath(__file__))
CERT_FILE = os.path.join(HERE, "valid_certs.json")


# ------------------------------------------------------------------ small helpers
def le(a):
    return int.from_bytes(bytes(a), "little")


def hx(v, n):
    """little-endian hex argument of n octets (value reduced modulo 256^n)"""
    return "x" + (v % (1 << (8 * n))).to_bytes(n, "little").hex()


def hxo(octs):
    return "x" + bytes(octs).hex()


def olen(v):
    return max(1, (v.bit_length() + 7) // 8)


def cert_arg(nodes):
    """certificate nodes (pricert format, n as int/str) -> JSON argument with n as little-endian octets"""
    out = []
    for nd in nodes:
        n = int(nd["n"])
        e = {"n": list(n.to_bytes(olen(n), "little")), "kind": nd["kind"]}
        if "fs" in nd:
            e["fs"] = nd["fs"]
        out.append(e)
    return json.dumps(out, separators=(",", ":"))


_CERTS = None


def certs():
    global _CERTS
    if _CERTS is None:
        try:
            _CERTS = json.load(open(CERT_FILE))
        except (OSError, ValueError):
            _CERTS = {}
    return _CERTS


def cert_for(n, budget=0):
    """stored certificate of n, or a quick search (small numbers), or None"""
    if n < pricert.MR_BOUND:
        return [{"n": n, "kind": "mr"}]
    c = certs().get(str(n))
    if c is None and budget:
        c = pricert.certificate(n, budget)
    return c


def rand_prime(rng, bits, cond=lambda p: True):
    while True:
        p = rng.getrandbits(bits) | (1 << (bits - 1)) | 1
        if cond(p) and pricert.is_prp(p):
            return p


def next_prp(n):
    n |= 1
    while not pricert.is_prp(n):
        n += 2
    return n


def prev_prp(n):
    n = (n - 1) | 1
    if n > 3 and n % 2 == 0:
        n -= 1
    while not pricert.is_prp(n):
        n -= 2
    return n


# ------------------------------------------------------------------ standard parameter sets (from the library)
def load_std(drv, ctx=None, env=None):
    rc, out, err = vlib.run_harness(drv, ["std"], env=env or {}, timeout=600)
    rows = [json.loads(l) for l in (out or "").splitlines() if l.strip().endswith("}")]
    return rows


FIELDS = {
    "bign": (("p", "a", "b", "q", "yG"), ("l",), "seed"),
    "bign96": (("p", "a", "b", "q", "yG"), ("l",), "seed"),
    "g12s": (("p", "a", "b", "q", "xP", "yP"), ("l", "n"), None),
    "stb99": (("p", "q", "a", "d"), ("l", "r"), None),
    "pfok": (("p", "g"), ("l", "r", "n"), None),
    "dstu": (("B", "n", "Px", "Py"), ("A", "c"), None),
}


def flen(scheme, S, f):
    """octet length of field f as the validator reads it"""
    if scheme in ("bign", "bign96"):
        return 8 if f == "seed" else (24 if S["l"] == 96 else max(1, S["l"] // 4))
    if scheme == "g12s":
        return S["l"] // 8 if f == "q" else len(S["p"])
    if scheme == "stb99":
        return (S["r"] + 7) // 8 if f == "q" else (S["l"] + 7) // 8
    if scheme == "pfok":
        return (S["l"] + 7) // 8
    if scheme == "dstu":
        return (S["f"][0] + 7) // 8
    raise ValueError(scheme)


class PSet:
    """a parameter set as integers; .cmd(...) renders the exec command"""

    def __init__(self, scheme, row):
        self.scheme = scheme
        self.name = row.get("name", "")
        big, small, seed = FIELDS[scheme]
        self.v = {}
        self.n = {}
        for f in big:
            self.v[f] = le(row[f])
            self.n[f] = len(row[f])
        for f in small:
            self.v[f] = row[f]
        if seed:
            self.v[seed] = le(row[seed])
            self.n[seed] = 8
        if scheme == "dstu":
            self.v["f"] = list(row["f"])

    def copy(self):
        c = PSet.__new__(PSet)
        c.scheme, c.name = self.scheme, self.name
        c.v = {k: (list(x) if isinstance(x, list) else x) for k, x in self.v.items()}
        c.n = dict(self.n)
        return c

    def args_without(self, skip):
        return [a for a in self.args() if a.split("=")[0] not in skip]

    def args(self):
        big, small, seed = FIELDS[self.scheme]
        a = ["scheme=" + self.scheme]
        for f in small:
            a.append("%s=%d" % (f, self.v[f]))
        if self.scheme == "dstu":
            a.append("f=" + ",".join(str(x) for x in self.v["f"]))
        for f in big + ((seed,) if seed else ()):
            if f in self.v:
                a.append("%s=%s" % (f, hx(self.v[f], self.n[f])))
        return a


def pval_cmd(ps, expect, cond, cls, extra=()):
    return "pval " + " ".join(ps.args() + ["expect=" + expect, "cond=" + cond, "cls=" + cls, "set=" + (ps.name or "-")] + list(extra))


# ------------------------------------------------------------------ composites with evidence
def composite_small_factor(p, keep=lambda v: True):
    """a number close to p, of the same bit length, divisible by a small prime f, satisfying keep"""
    for f in (3, 5, 7, 11, 13):
        for k in range(1, 400):
            for v in (p - 2 * k, p + 2 * k):
                if v > 0 and v.bit_length() == p.bit_length() and v % f == 0 and keep(v) and not pricert.is_prp(v):
                    return v, f
    raise RuntimeError("no composite near")


def composite_two_primes(rng, bits, keep=lambda v: True, arnault=False):
    """product of two primes of the given total bit length without small factors: (n, factor).
    arnault: p2 = 2 p1 - 1 (a strong pseudoprime to about a quarter of all bases: the worst case for Miller-Rabin)"""
    for _ in range(100000):
        h = bits // 2
        if arnault:
            p1 = rand_prime(rng, h)
            p2 = 2 * p1 - 1
            if not pricert.is_prp(p2):
                continue
        else:
            p1 = rand_prime(rng, h)
            p2 = rand_prime(rng, bits - h)
        n = p1 * p2
        if n.bit_length() == bits and keep(n):
            return n, min(p1, p2)
    raise RuntimeError("no composite")


# ------------------------------------------------------------------ elliptic-curve helpers (generator side only)
def ec_add(P, Q, a, p):
    if P is None:
        return Q
    if Q is None:
        return P
    x1, y1 = P
    x2, y2 = Q
    if x1 == x2:
        if (y1 + y2) % p == 0:
            return None
        l = (3 * x1 * x1 + a) * pow(2 * y1, -1, p) % p
    else:
        l = (y2 - y1) * pow(x2 - x1, -1, p) % p
    x3 = (l * l - x1 - x2) % p
    return x3, (l * (x1 - x3) - y1) % p


def ec_mul(k, P, a, p):
    R = None
    while k:
        if k & 1:
            R = ec_add(R, P, a, p)
        P = ec_add(P, P, a, p)
        k >>= 1
    return R


def cubic_root(c2, c1, c0, p, rng):
    """a root of x^3 + c2 x^2 + c1 x + c0 over GF(p) or None (generator aid: Cantor-Zassenhaus on gcd(x^p - x, f))"""
    f = [c0 % p, c1 % p, c2 % p, 1]

    def pmod(a):
        a = a[:]
        while len(a) >= 4:
            c = a.pop()
            if c:
                for i in range(3):
                    a[len(a) - 3 + i] = (a[len(a) - 3 + i] - c * f[i]) % p
        return a + [0] * (3 - len(a))

    def pmul(a, b):
        r = [0] * 5
        for i, x in enumerate(a):
            for j, y in enumerate(b):
                r[i + j] = (r[i + j] + x * y) % p
        return pmod(r)

    def ppow(b, e):
        r = [1, 0, 0]
        for bit in bin(e)[2:]:
            r = pmul(r, r)
            if bit == "1":
                r = pmul(r, b)
        return r

    def pgcd(a, b):
        def trim(x):
            x = x[:]
            while x and x[-1] == 0:
                x.pop()
            return x
        a, b = trim(a), trim(b)
        while b:
            inv = pow(b[-1], -1, p)
            while len(a) >= len(b):
                c = a[-1] * inv % p
                sh = len(a) - len(b)
                for i in range(len(b)):
                    a[sh + i] = (a[sh + i] - c * b[i]) % p
                a = trim(a)
                if not a:
                    break
            a, b = b, a
        return a
    xp = ppow([0, 1, 0], p)
    g = pgcd(f, [(xp[0]) % p, (xp[1] - 1) % p, xp[2]])
    if len(g) <= 1:
        return None
    # g splits into linear factors; take roots by trying shifts
    for _ in range(60):
        if len(g) == 2:
            return (-g[0] * pow(g[1], -1, p)) % p
        d = rng.randrange(p)
        # gcd(g, (x + d)^((p-1)/2) - 1)
        def gmod(a):
            a = a[:]
            n = len(g) - 1
            inv = pow(g[-1], -1, p)
            while len(a) > n:
                c = a.pop() * inv % p
                if c:
                    for i in range(n):
                        a[len(a) - n + i] = (a[len(a) - n + i] - c * g[i]) % p
            return a
        r = [1]
        base = [d, 1]
        for bit in bin((p - 1) // 2)[2:]:
            t = [0] * (2 * len(r) - 1)
            for i, x in enumerate(r):
                for j, y in enumerate(r):
                    t[i + j] = (t[i + j] + x * y) % p
            r = gmod(t)
            if bit == "1":
                t = [0] * (len(r) + 1)
                for i, x in enumerate(r):
                    t[i] = (t[i] + x * base[0]) % p
                    t[i + 1] = (t[i + 1] + x) % p
                r = gmod(t)
        r = r + [0] * (len(g) - len(r))
        r[0] = (r[0] - 1) % p
        h = pgcd(g, r)
        if 1 < len(h) < len(g):
            g = h if len(h) <= len(g) - len(h) + 1 else h
    return None


# ------------------------------------------------------------------ parameter-set perturbations
def ec_perturbations(ps, rng, tier, aid=None, heavy=True):
    """[(command)] single-field perturbations of an elliptic-curve parameter set (bign, bign96, g12s), each with the
    condition it violates and the evidence.  aid(name, args) runs generator aids of the driver (belt-hash)."""
    sch = ps.scheme
    v = ps.v
    p, q, a, b = v["p"], v["q"], v["a"], v["b"]
    L = p.bit_length()
    out = []

    def mk(cond, cls, extra=(), **chg):
        c = ps.copy()
        c.v.update(chg)
        out.append(pval_cmd(c, "fail", cond, cls, extra))
    bign = sch in ("bign", "bign96")
    # level
    if bign:
        mk("l", "l=0", l=0)
        mk("l", "l=other", l=(100 if sch == "bign" else 128))
        if sch == "bign":
            # the data of this level declared as a neighbour level: a higher one makes p too short, a lower one leaves
            # non-zero octets in the unused part of the arrays
            other = 192 if v["l"] != 192 else 256
            c = ps.copy(); c.v["l"] = other
            for f in ("p", "a", "b", "q", "yG"):
                c.n[f] = max(c.n[f], other // 4)
            out.append(pval_cmd(c, "fail", "plen" if other > v["l"] else "pad", "l=neighbour-level"))
        if ps.n["p"] < 64 and sch == "bign":
            c = ps.copy()
            fpad = ("p", "a", "b", "q", "yG")[rng.randrange(5)]
            c.n[fpad] = 64
            c.v[fpad] = c.v[fpad] + (1 << (8 * (ps.n["p"] + rng.randrange(64 - ps.n["p"]))))
            out.append(pval_cmd(c, "fail", "pad", "pad:" + fpad))
        mk("plen", "p:top-bit-cleared", p=p - (1 << (L - 1)))
        mk("p3mod4", "p-2", p=p - 2)
    else:
        mk("l", "l=0", l=0)
        mk("l", "l=384", l=384)
    # p composite: small factor (same residue mod 4), product of two primes
    keep4 = (lambda x: x % 4 == 3) if bign else (lambda x: True)
    pc, f = composite_small_factor(p, keep4)
    mk("pprime", "p:small-factor", ("sf=%d" % f,), p=pc)
    if bign or p.bit_length() % 8 == 0 or True:
        n2, f2 = composite_two_primes(rng, L, keep4, arnault=False)
        mk("pprime", "p:two-primes", ("fo=" + hx(f2, olen(f2)),), p=n2)
    # coefficients
    if bign:
        mk("arange", "a=0", a=0)
        mk("brange", "b=0", b=0)
    else:
        mk("J", "a=0", a=0)
        mk("J", "b=0", b=0)
    if p + 1 < (1 << (8 * ps.n["a"])):
        mk("arange", "a=p", a=p)
        mk("brange", "b=p+b" if p + b < (1 << (8 * ps.n["b"])) else "b=p", b=(p + b if p + b < (1 << (8 * ps.n["b"])) else p))
    # singular curve: a = -3 c^2, b = 2 c^3
    c0 = rng.randrange(2, p)
    mk("disc", "singular", a=(-3 * c0 * c0) % p, b=(2 * c0 * c0 * c0) % p)
    if bign:
        mk("bseed", "seed:bit", seed=v["seed"] ^ (1 << rng.randrange(64)))
        mk("bseed", "b+1", b=b + 1)
        mk("bseed", "a:bit", a=a ^ (1 << rng.randrange(L - 2)))
        if heavy:
            mk("yG", "-G", yG=p - v["yG"])
            mk("yG", "yG+1", yG=v["yG"] + 1)
        # b a non-residue: another seed (needs belt-hash: generator aid)
        if aid is not None and heavy:
            no = ps.n["p"]
            for t in range(1, 40):
                s2 = (v["seed"] + (t << 32)) % (1 << 64)
                h1 = aid("beltHash", "in=" + hx(p, no) + hx(a, no)[1:] + hx(s2, 8)[1:])
                h2 = aid("beltHash", "in=" + hx(p, no) + hx(a, no)[1:] + hx((s2 + 1) % (1 << 64), 8)[1:])
                b2 = le(h1 + h2) % p
                if b2 and pow(b2, (p - 1) // 2, p) == p - 1:
                    mk("bqr", "b:non-residue", b=b2, seed=s2, yG=pow(b2, (p + 1) // 4, p))
                    break
    else:
        # base point
        mk("base", "yP+1", yP=(v["yP"] + 1) % p)
        mk("base", "xP+1", xP=(v["xP"] + 1) % p)
        # twist: (x, sqrt(-rhs)) for an x whose rhs is a non-residue, p = 3 (mod 4) only
        if p % 4 == 3:
            for t in range(1, 200):
                x = (v["xP"] + t) % p
                rhs = (x * x * x + a * x + b) % p
                if pow(rhs, (p - 1) // 2, p) == p - 1:
                    mk("base", "twist-point", xP=x, yP=pow((-rhs) % p, (p + 1) // 4, p))
                    break
        if v["n"] == 1:
            mk("hasse", "cofactor=2", n=2)
        mk("hasse", "cofactor=0", n=0)
    # q: wrong length, composite
    ql = q.bit_length()
    if bign:
        mk("qlen", "q:top-bit-cleared", q=q - (1 << (ql - 1)))
    else:
        mk("qlen", "q:short", q=q >> (ql - (254 if v["l"] == 256 else 508)))
    qc, f = composite_small_factor(q)
    mk("qprime", "q:small-factor", ("sf=%d" % f,), q=qc)
    n2, f2 = composite_two_primes(rng, ql, arnault=(tier != "quick"))
    mk("qprime", "q:two-primes", ("fo=" + hx(f2, olen(f2)),), q=n2)
    if q != p and (not bign or True):
        c = ps.copy(); c.v["q"] = p
        if p < (1 << (8 * ps.n["q"])):
            out.append(pval_cmd(c, "fail", "qnep", "q=p"))
    # MOV: q' = p + 1 (p^2 = 1 mod q')
    if (p + 1) < (1 << (8 * ps.n["q"])) and (bign and (p + 1).bit_length() == L or not bign):
        mk("mov", "q=p+1", q=p + 1)
    return out


def dl_perturbations(ps, rng, tier, heavy=True):
    """stb99 / pfok: perturbations of p, q, a, d / p, g with evidence"""
    sch, v = ps.scheme, ps.v
    p = v["p"]
    out = []

    def mk(cond, cls, extra=(), **chg):
        c = ps.copy()
        c.v.update(chg)
        out.append(pval_cmd(c, "fail", cond, cls, extra))
    L = v["l"]
    mk("lr", "l+2", l=L + 2)
    mk("lr", "r+1", r=v["r"] + 1)
    mk("plen", "p:top-bit-cleared", p=p - (1 << (L - 1)))
    if L % 8:
        mk("plen", "p:bit-l-set", p=p | (1 << L))
    pc, f = composite_small_factor(p)
    mk("pprime", "p:small-factor", ("sf=%d" % f,), p=pc)
    if sch == "stb99":
        q = v["q"]
        mk("qlen", "q:top-bit-cleared", q=q - (1 << (v["r"] - 1)))
        qc, f = composite_small_factor(q)
        mk("qprime", "q:small-factor", ("sf=%d" % f,), q=qc)
        q2 = next_prp(q + 2)
        if q2.bit_length() == v["r"] and (p - 1) % q2:
            mk("qdiv", "q:next-prime", q=q2)
        mk("arange", "a=0", a=0)
        mk("arange", "a=p", a=p)
        mk("drange", "d=0", d=0)
        mk("drange", "d=p", d=p)
        if heavy:
            mk("agen", "a+1", a=v["a"] + 1)
            mk("agen", "d+1", d=v["d"] + 1)
        R = pow(2, L + 2, p)
        mk("anotone", "a=unity", a=R, d=R)                 # d = e => a = e
        if ps.n["p"] < 308:
            c = ps.copy(); c.n["a"] = ps.n["p"] + 1; c.v["a"] = v["a"] + (1 << (8 * ps.n["p"]))
            out.append(pval_cmd(c, "fail", "pad", "pad:a"))
    else:
        mk("nl", "n=l", n=L)
        mk("nl", "n=l+1", n=L + 1)
        # p prime but (p - 1)/2 composite: a prime of l bits, 3 | (p' - 1)/2  (searched; evidence: the factor 3)
        for t in range(1, 5000):
            c = p + 6 * t * (1 if t % 2 else -1)
            if c.bit_length() == L and c % 12 == 7 and pricert.is_prp(c) and ((c - 1) // 2) % 3 == 0:
                mk("qprime", "(p-1)/2:small-factor", ("sf=3",), p=c)
                break
        mk("grange", "g=0", g=0)
        mk("grange", "g=p", g=p)
        R = pow(2, L + 2, p)
        if heavy:
            mk("gord", "g=unity", g=R)
            mk("gord", "g=-unity", g=p - R)                    # order 2
            g2 = v["g"] * v["g"] % p * pow(R, -1, p) % p        # g o g: order q
            mk("gord", "g=g^(2)", g=g2)
    return out


def dstu_perturbations(ps, rng, tier):
    v = ps.v
    out = []

    def mk(cond, cls, extra=(), **chg):
        c = ps.copy()
        c.v.update(chg)
        out.append(pval_cmd(c, "fail", cond, cls, extra))
    m = v["f"][0]
    f = v["f"]
    mk("A", "A=2", A=2)
    mk("B", "B=0", B=0)
    # reducible modulus of the same shape: x^m + x^k + 1 with even ... choose k making the weight even impossible; use known reducible: k and m both even => square
    if f[2] == 0:
        mk("fshape", "k=0", f=[m, 0, 0, 0])
        mk("fshape", "k=m", f=[m, m, 0, 0])
    else:
        mk("fshape", "order", f=[m, f[3], f[2], f[1]])
        mk("fshape", "k1=0", f=[m, f[1], f[2], 0])
    n = v["n"]
    nc, sf = composite_small_factor(n)
    mk("nprime", "n:small-factor", ("sf=%d" % sf,), n=nc)
    mk("n160", "n:160-bits", n=(1 << 159) | (n & ((1 << 159) - 1)) | 1)
    mk("hasse", "c+1", c=v["c"] + 1)
    mk("hasse", "c=0", c=0)
    return out


# ------------------------------------------------------------------ seeds of stb99 / pfok
STB99_LEVELS = [(638, 143), (766, 154), (1022, 175), (1118, 182), (1310, 195), (1534, 208), (1790, 222), (2046, 235), (2334, 249), (2462, 257)]
PFOK_LEVELS = [(638, 130), (702, 136), (766, 141), (862, 149), (958, 154), (1022, 161), (1118, 168), (1214, 175), (1310, 181), (1438, 188),
               (1534, 194), (1662, 201), (1790, 208), (1918, 214), (2046, 221), (2174, 225), (2334, 234), (2462, 240), (2622, 246), (2782, 253), (2942, 259)]


def half_chain(x0, n):
    c = [x0]
    while c[-1] > 32:
        c.append(c[-1] // 2 + 1)
    return c + [0] * (n - len(c))


def chain_variants(c, plus4):
    """boundary variants of a valid chain c (list with trailing zeros): [(class, chain)]"""
    t = max(i for i, x in enumerate(c) if x)          # index of the last element
    res = [("valid", c[:])]
    def put(cls, i, val):
        d = c[:]; d[i] = val; res.append((cls, d))
    for i in sorted({0, t // 2, t - 1} & set(range(t))):
        y = c[i + 1]
        put("link%d:x=2y" % i, i, 2 * y)
        put("link%d:x=2y+1" % i, i, 2 * y + 1)
        lo = (5 * y) // 4 + (4 if plus4 else 0)          # x must exceed 5y/4 (+4)
        # smallest admissible x
        xmin = lo + 1
        while not (5 * y < 4 * xmin - (16 if plus4 else 0)):
            xmin += 1
        put("link%d:x=min" % i, i, xmin)
        put("link%d:x=min-1" % i, i, xmin - 1)
        if plus4:
            put("link%d:x=min-4" % i, i, xmin - 4)      # admissible under the rule without "+ 4"
    for val in (16, 17, 32, 33):
        put("last=%d" % val, t, val)
    if t + 1 < len(c):
        put("tail-nonzero", len(c) - 1, 17)
        put("after-last=16", t + 1, 16)
    put("huge", min(t, 5), (1 << 64) // 5 - 1)
    put("hole", max(1, t // 2), 0)
    return res


def seed_cmds(rng, tier):
    out = []
    zi_def = list(range(1, 32))

    def zi_variants():
        r = [("zi:default", zi_def)]
        for pos in (0, 15, 30):
            for val in (0, 1, 65256, 65257, 65535):
                z = zi_def[:]; z[pos] = val
                r.append(("zi[%d]=%d" % (pos, val), z))
        z = [rng.randrange(1, 65257) for _ in range(31)]
        r.append(("zi:seeded", z))
        return r

    def L(a):
        return ",".join(str(x) for x in a)
    st_levels = STB99_LEVELS if tier != "quick" else [STB99_LEVELS[0], STB99_LEVELS[2], STB99_LEVELS[-1]]
    for (l, r) in st_levels + [(640, 143), (0, 0)]:
        di = half_chain(l // 2 + 1, 18) if l else [0] * 18
        ri = half_chain(r, 10) if r else [0] * 10
        base = "l=%d" % l
        for cls, z in (zi_variants() if l in (638, 2462) else zi_variants()[:2]):
            for op in ("stb99SeedVal", "stb99SeedAdj"):
                out.append("%s %s zi=%s di=%s ri=%s cls=%s" % (op, base, L(z), L(di), L(ri), cls))
        if not l:
            continue
        # di[0] boundaries: l/2 <= di[0] <= 7l/8 - r
        for cls, d0 in (("di0=l/2-1", l // 2 - 1), ("di0=l/2", l // 2), ("di0=max", 7 * l // 8 - r), ("di0=max+1", 7 * l // 8 - r + 1),
                        ("di0=(7l-r)/8", (7 * l - r) // 8), ("di0=(7l-r)/8+1", (7 * l - r) // 8 + 1)):
            d = half_chain(d0, 18)
            if len(d) > 18:
                continue
            out.append("stb99SeedVal %s zi=%s di=%s ri=%s cls=%s" % (base, L(zi_def), L(d), L(ri), cls))
        for cls, d in chain_variants(di, True):
            out.append("stb99SeedVal %s zi=%s di=%s ri=%s cls=di:%s" % (base, L(zi_def), L(d), L(ri), cls))
        for cls, rr in chain_variants(ri, False):
            out.append("stb99SeedVal %s zi=%s di=%s ri=%s cls=ri:%s" % (base, L(zi_def), L(di), L(rr), cls))
        # the longest chains the header documents
        if l == 2462:
            dmax = [1897, 1514, 1207, 962, 766, 609, 483, 383, 303, 239, 187, 146, 113, 87, 66, 49, 35, 24]
            rmax = [257, 205, 163, 130, 103, 82, 65, 51, 40, 31]
            out.append("stb99SeedVal %s zi=%s di=%s ri=%s cls=di:longest" % (base, L(zi_def), L(dmax), L(ri)))
            out.append("stb99SeedVal %s zi=%s di=%s ri=%s cls=ri:longest" % (base, L(zi_def), L(di), L(rmax)))
        # adjustment: each array zero / partially filled / invalid non-zero
        z0 = [0] * 31
        for cls, z, d, rr in (("adj:all-zero", z0, [0] * 18, [0] * 10), ("adj:zi-zero", z0, di, ri), ("adj:di-zero", zi_def, [0] * 18, ri),
                              ("adj:ri-zero", zi_def, di, [0] * 10), ("adj:zi-partial", [1] + [0] * 30, di, ri),
                              ("adj:di-partial", zi_def, [di[0]] + [0] * 17, ri), ("adj:ri-bad", zi_def, di, [r + 1] + ri[1:]),
                              ("adj:ri-first-only", zi_def, di, [r] + [0] * 9)):
            out.append("stb99SeedAdj %s zi=%s di=%s ri=%s cls=%s" % (base, L(z), L(d), L(rr), cls))
    pf_levels = PFOK_LEVELS if tier != "quick" else [PFOK_LEVELS[0], PFOK_LEVELS[5], PFOK_LEVELS[-1]]
    for (l, r) in pf_levels + [(640, 0), (0, 0)]:
        li = half_chain(l - 1, 20) if l else [0] * 20
        base = "l=%d" % l
        for cls, z in (zi_variants() if l in (638, 2942) else zi_variants()[:2]):
            for op in ("pfokSeedVal", "pfokSeedAdj"):
                out.append("%s %s zi=%s li=%s cls=%s" % (op, base, L(z), L(li), cls))
        if not l:
            continue
        for cls, c in chain_variants(li, True):
            out.append("pfokSeedVal %s zi=%s li=%s cls=li:%s" % (base, L(zi_def), L(c), cls))
        for cls, l0 in (("li0=l-2", l - 2), ("li0=l", l)):
            c = half_chain(l0, 20)
            out.append("pfokSeedVal %s zi=%s li=%s cls=%s" % (base, L(zi_def), L(c), cls))
        if l == 2942:
            lmax = [2941, 2349, 1875, 1496, 1193, 951, 757, 602, 478, 379, 299, 235, 184, 143, 111, 85, 64, 47, 34, 23]
            out.append("pfokSeedVal %s zi=%s li=%s cls=li:longest" % (base, L(zi_def), L(lmax)))
        z0 = [0] * 31
        for cls, z, c in (("adj:all-zero", z0, [0] * 20), ("adj:zi-zero", z0, li), ("adj:li-zero", zi_def, [0] * 20),
                          ("adj:li-partial", zi_def, [li[0]] + [0] * 19), ("adj:zi-partial", [0] * 30 + [5], li)):
            out.append("pfokSeedAdj %s zi=%s li=%s cls=%s" % (base, L(z), L(c), cls))
    return out


# ------------------------------------------------------------------ numbers: primes, pseudoprimes, next primes, sieve
CARMICHAEL = [561, 1105, 1729, 2465, 2821, 6601, 8911, 41041, 825265, 321197185, 5394826801, 232250619601, 9746347772161,
              1436697831295441, 60977817398996785, 7156857700403137441, 1791562810662585767521, 87674969936234821377601]
STRONG_PSP = [2047, 3277, 4033, 1373653, 25326001, 3215031751, 2152302898747, 3474749660383, 341550071728321,
              3825123056546413051, 318665857834031151167461, 3317044064679887385961981]
KNOWN_PRIMES = [(1 << 31) - 1, (1 << 32) - 5, (1 << 32) + 15, (1 << 61) - 1, (1 << 64) - 59, (1 << 64) + 13, (1 << 89) - 1, (1 << 107) - 1,
                (1 << 127) - 1, (1 << 255) - 19, (1 << 256) - 189, (1 << 521) - 1]


def chernick(rng, bits):
    """Carmichael number (6k+1)(12k+1)(18k+1) of about the given size, with its least factor"""
    kb = max(2, (bits - 11) // 3)
    for _ in range(200000):
        k = rng.getrandbits(kb) | (1 << (kb - 1))
        if all(pricert.is_prp(c * k + 1, 8) for c in (6, 12, 18)):
            return (6 * k + 1) * (12 * k + 1) * (18 * k + 1), 6 * k + 1
    return None


def words(v, W=64):
    return max(1, (v.bit_length() + W - 1) // W)


def prime_cmds(rng, tier, W=64):
    """isPrime / sgPrime / nextPrime / sieved / smooth commands with the evidence for numbers the oracle cannot decide"""
    out = []

    def isprime(v, cls, evid=None):
        n = words(v, W)
        on = n * (W // 8)
        ev = []
        if v >= pricert.MR_BOUND:
            if evid is None:
                return
            ev = [evid]
        # the operand length is the length of the argument: natural length and one more (zero) 8-octet unit; w=1: priIsPrimeW
        for nn in ((0, n, n + 1) if v < (1 << 32) else (n, n + 1)):
            out.append("isPrime a=%s %scls=%s %s" % (hx(v, max(on, 1) + (W // 8 if nn > n else 0)), "w=1 " if nn == 0 else "", cls, " ".join(ev)))
    for c in CARMICHAEL:
        f = next(d for d in range(3, 10 ** 6, 2) if c % d == 0)
        isprime(c, "carmichael", "sf=%d" % f)
    for c in STRONG_PSP:
        f = None
        if c >= pricert.MR_BOUND:
            f = "fo=" + hx(1287836182261, 6)
        isprime(c, "strong-pseudoprime", f)
    for p in KNOWN_PRIMES:
        if p < pricert.MR_BOUND:
            isprime(p, "known-prime")
        else:
            c = cert_for(p)
            if c:
                isprime(p, "known-prime", "cert=" + cert_arg(c))
    # products of two primes near 2^32 and 2^64, Arnault-type pairs, Chernick numbers
    for base in (1 << 32, 1 << 64):
        for k in range(3 if tier == "quick" else 10):
            p1 = next_prp(base + rng.randrange(1 << 20)); p2 = prev_prp(base - rng.randrange(1 << 20))
            for a_, b_ in ((p1, p2), (p1, next_prp(p1 + 2)), (p2, p2)):
                n = a_ * b_
                isprime(n, "two-primes@2^%d" % (base.bit_length() - 1), "fo=" + hx(min(a_, b_), olen(min(a_, b_))))
    for bits in ((64, 128) if tier == "quick" else (48, 64, 96, 128, 192, 256)):
        n, f = composite_two_primes(rng, bits, arnault=True)
        isprime(n, "arnault-pair-%d" % bits, "fo=" + hx(f, olen(f)))
        r = chernick(rng, bits)
        if r:
            isprime(r[0], "chernick-%d" % bits, "fo=" + hx(r[1], olen(r[1])))
    # seeded primes with certificates (quick search), 65..160 bits
    for bits in ((70, 100) if tier == "quick" else (65, 70, 80, 90, 100, 128, 160)):
        p = rand_prime(rng, bits)
        c = cert_for(p, budget=20)
        if c:
            isprime(p, "seeded-prime-%d" % bits, "cert=" + cert_arg(c))
    # Sophie Germain test: q prime, 2q+1 prime / composite
    sg = [3, 5, 11, 23, 29, 41, 53, 83, 89, 113, 131, 7, 13, 17, 19, 31, 37]
    for qv in sg:
        out.append("sgPrime a=%s cls=small" % hx(qv, W // 8))
    for bits in (31, 32, 33, 60):
        for _ in range(2 if tier == "quick" else 6):
            qv = rand_prime(rng, bits)
            out.append("sgPrime a=%s cls=seeded-%d" % (hx(qv, words(qv, W) * (W // 8)), bits))
        # a genuine Sophie Germain prime of this size
        for _ in range(20000):
            qv = rand_prime(rng, bits)
            if pricert.is_prp(2 * qv + 1):
                out.append("sgPrime a=%s cls=sg-%d" % (hx(qv, words(qv, W) * (W // 8)), bits))
                break
    # next primes: multi-word starts below the oracle's bound, leading zero words, limited trials
    starts = [(5, 2, 10, "small-2words"), (5, 2, 2, "small-2words"), (3, 2, 1, "small-2words"), (7, 3, 5, "small-3words"), (2, 1, 0, "two"),
              (0, 1, 0, "zero"), (1, 1, 0, "one"), (4, 1, 3, "four"), (8, 1, 10, "eight"), (14, 1, 10, "no-prime-in-4-bits"), (24, 2, 10, "24")]
    for (a0, nn, bc, cls) in starts:
        out.append("nextPrime a=%s base=%d iter=20 trials=-1 cls=%s" % (hx(a0, nn * (W // 8)), bc, cls))
    for bits in ((65, 72) if tier == "quick" else (65, 66, 70, 72, 76, 80)):
        a0 = rng.getrandbits(bits) | (1 << (bits - 1))
        nn = words(a0, W)
        out.append("nextPrime a=%s base=%d iter=20 trials=-1 cls=seeded-%d" % (hx(a0, nn * (W // 8)), rng.choice((0, 10, 100)), bits))
        # limited trials around the position of the prime
        pnext = next_prp(a0)
        pos = (pnext - (a0 | 1)) // 2 + 1             # the prime is the pos-th candidate
        for tr, cls in ((pos, "trials=exact"), (pos - 1, "trials=one-short")):
            if tr >= 0:
                out.append("nextPrime a=%s base=%d iter=20 trials=%d cls=%s" % (hx(a0, nn * (W // 8)), 10, tr, cls))
    # just below a power of two with no prime left in the bit length: 2^k - 1 composite for k = 4, 6, 8 ... start at 2^k - 1
    for k in (4, 6, 8, 9, 10, 16, 32, 64, 66, 72):
        a0 = (1 << k) - 1
        if pricert.is_prp(a0):
            continue
        nn = words(a0, W)
        out.append("nextPrime a=%s base=%d iter=20 trials=-1 cls=top-of-%d-bits" % (hx(a0, nn * (W // 8)), 10, k))
    # sieve / smooth
    odd = [p for p in pricert.SMALL[1:1100]]
    for bc in (0, 1, 2, 10, 100, 1024):
        vals = [0, 1, 2, 3, 4, 9, 15, 45, 105, odd[bc - 1] if bc else 3, odd[bc] if bc < 1024 else 8191, odd[min(bc, 1023)] * odd[min(bc + 1, 1024)],
                2 ** 20, 2 ** 20 * 3 ** 5, 2 ** 7 * 3 ** 3 * 5 * 7 * 11, (1 << 64) - 1, (1 << 64) + 1, 3 ** 50, 3 ** 30 * 5 ** 20 * 2 ** 11, 3 ** 30 * 5 ** 20 * 8167,
                math.prod(odd[:bc][:40]) if bc else 1, math.prod(odd[:bc][:30]) * (odd[bc] if bc < 1024 else 8179) if bc else 7,
                rng.getrandbits(64) | 1, rng.getrandbits(100)]
        for vv in vals:
            nn = words(vv, W)
            for n2 in (nn, nn + 1):
                out.append("sieved a=%s base=%d cls=bc%d" % (hx(vv, n2 * (W // 8)), bc, bc))
                out.append("smooth a=%s base=%d cls=bc%d" % (hx(vv, n2 * (W // 8)), bc, bc))
    out.append("basePrimes")
    return out


# ------------------------------------------------------------------ binary polynomials, bels keys
def poly_cmds(rng, tier, std_bels):
    out = []
    for row in std_bels:
        if tier == "quick" and row["num"] not in (0, 1, 16):
            continue
        out.append("belsValM m=%s len=%d cls=std%d" % (hxo(row["m"]), row["len"], row["num"]))
        m = list(row["m"])
        m[0] ^= 2
        out.append("belsValM m=%s len=%d cls=std-bit" % (hxo(m), row["len"]))
    for ln in (16, 24, 32):
        out.append("belsValM m=%s len=%d cls=zero" % (hxo([0] * ln), ln))
        out.append("belsValM m=%s len=%d cls=one" % (hxo([1] + [0] * (ln - 1)), ln))
        out.append("belsValM m=%s len=%d cls=ones" % (hxo([255] * ln), ln))
    # x^128 + x^7 + x^2 + x + 1 and neighbours through ppIrred with 3 (exact) and 4 words
    belt = (1 << 128) | 0x87
    for vv, cls in ((belt, "belt"), (belt ^ 2, "belt^x"), ((1 << 127) | 3, "x^127+x+1"), ((1 << 127) | 1, "x^127+1"), (2, "x"), (3, "x+1"), (1, "1"), (0, "0"),
                    (7, "x^2+x+1"), (5, "x^2+1"), ((1 << 64) | 0x1B, "x^64+x^4+x^3+x+1"), ((1 << 63) | 3, "x^63+x+1"), ((1 << 65) | (1 << 18) | 1, "x^65+x^18+1")):
        nn = max(1, (vv.bit_length() + 63) // 64)
        for n2 in (nn, nn + 1):
            out.append("ppIrred a=%s cls=%s" % (hx(vv, n2 * 8), cls))
    return out


# ------------------------------------------------------------------ keys
def key_cmds(ps, rng, tier, heavy):
    """public keys / key pairs of a bign / bign96 parameter set; heavy: include cases that cost TLC a scalar multiplication"""
    v = ps.v
    p, q, a, b, yG = v["p"], v["q"], v["a"], v["b"], v["yG"]
    no = ps.n["p"]
    G = (0, yG)
    out = []
    base = " ".join(ps.args())

    def pk(x, y, cls):
        out.append("pubkeyVal %s Q=%s cls=%s" % (base, hx(x, no) + hx(y, no)[1:], cls))
    k = rng.randrange(2, q)
    K = ec_mul(k, G, a, p)
    pk(0, yG, "G")
    pk(0, p - yG, "-G")
    pk(K[0], K[1], "kG")
    pk(K[0], (K[1] + 1) % p, "y+1")
    pk((K[0] + 1) % p, K[1], "x+1")
    pk(K[1], K[0], "swapped")
    pk(0, 0, "zero")
    pk(p - 1, p - 1, "p-1")
    pk((1 << (8 * no)) - 1, (1 << (8 * no)) - 1, "all-ones")
    if p < (1 << (8 * no)):
        pk(p, yG, "x=p(+0)")                       # x = x_G + p
        # y >= p with y mod p on the curve: a point with a small y coordinate
        room = (1 << (8 * no)) - p
        for t in range(0, min(room, 40)):
            x = cubic_root(0, a, (b - t * t) % p, p, rng)
            if x is not None:
                pk(x, t, "small-y")
                pk(x, p + t, "y=p+t")
                break
        for t in range(1, min(room, 40)):
            rhs = (t ** 3 + a * t + b) % p
            if pow(rhs, (p - 1) // 2, p) == 1:
                y = pow(rhs, (p + 1) // 4, p)
                pk(t, y, "small-x")
                pk(p + t, y, "x=p+t")
                break
    # twist by -1 (p = 3 mod 4)
    for t in range(2, 200):
        rhs = (t ** 3 + a * t + b) % p
        if pow(rhs, (p - 1) // 2, p) == p - 1:
            pk(t, pow((-rhs) % p, (p + 1) // 4, p), "twist")
            break

    dlen = 24 if v["l"] == 96 else v["l"] // 4
    def kp2(d, Q, cls):
        out.append("keypairVal %s d=%s Q=%s cls=%s" % (base, hx(d, dlen), hx(Q[0], no) + hx(Q[1], no)[1:], cls))
    mG = (0, p - yG)
    G2 = ec_add(G, G, a, p)
    kp2(0, G, "d=0")
    kp2(1, G, "d=1")
    kp2(1, mG, "d=1:-G")
    kp2(2, G2, "d=2")
    kp2(2, G, "d=2:G")
    if q < (1 << (8 * dlen)):
        kp2(q, G, "d=q")
        kp2(q, (0, 0), "d=q:Q=0")
    if q + 1 < (1 << (8 * dlen)):
        kp2(q + 1, G, "d=q+1:G")
    kp2((1 << (8 * dlen)) - 1, G, "d=all-ones")
    if heavy:
        kp2(q - 1, mG, "d=q-1")
        kp2(q - 1, G, "d=q-1:G")
        kp2(k, K, "d=seeded")
        kp2(k, (K[0], p - K[1]), "d=seeded:-Q")
        kp2(k ^ 1, K, "d^1")
    return out


TINY_CURVES = [  # (p, A, B, bits): y^2 = x^3 + A x + B over GF(p); all (x, y) in [0, 2^bits)^2
    (7, 3, 2, 3), (11, 1, 6, 4), (23, 1, 1, 5), (31, 2, 3, 5), (251, 3, 7, 8)]


def tiny_curve_cmds(rng, tier):
    out = []
    curves = list(TINY_CURVES)
    for (p, A, B, bits) in curves:
        rows = range(1 << bits)
        if bits >= 8 and tier == "quick":
            rows = sorted(set([0, 1, p - 1, p, p + 1, (1 << bits) - 1] + [rng.randrange(1 << bits) for _ in range(42)]))
        for x in rows:
            out.append("onA p=%s A=%s B=%s bits=%d x=%d cls=p%d" % (hx(p, olen(p)), hx(A, olen(p)), hx(B, olen(p)), bits, x, p))
    # a seeded 10-bit curve (thorough: complete)
    for _ in range(1 if tier == "quick" else 2):
        p = rand_prime(rng, 10)
        while True:
            A, B = rng.randrange(1, p), rng.randrange(1, p)
            if (4 * A ** 3 + 27 * B * B) % p:
                break
        rows = range(1024) if tier != "quick" else sorted(set([0, p - 1, p, 1023] + [rng.randrange(1024) for _ in range(12)]))
        for x in rows:
            out.append("onA p=%s A=%s B=%s bits=10 x=%d cls=seeded10" % (hx(p, 2), hx(A, 2), hx(B, 2), x))
    return out


# ------------------------------------------------------------------ ecpIsSafeGroup on crafted (p, q) pairs
def prime_with_cert(rng, bits, mult=1):
    """a prime q = 1 (mod mult) of the given bit length together with its certificate nodes, built top-down so that the
    factored part of q - 1 is a (recursively certified) prime F with F^2 > q (Pocklington)"""
    if bits <= 80:
        while True:
            t = rng.getrandbits(bits) | (1 << (bits - 1))
            q = t - t % (2 * mult) + 1
            if q.bit_length() == bits and pricert.is_prp(q):
                return q, [{"n": q, "kind": "mr"}]
    F, nodes = prime_with_cert(rng, bits // 2 + 3, 1)
    while True:
        t = rng.getrandbits(bits - F.bit_length() - 1) | (1 << (bits - F.bit_length() - 2))
        t -= t % mult
        q = 2 * F * t + 1
        if t == 0 or q.bit_length() != bits or not pricert.is_prp(q):
            continue
        a = 2
        while not (pow(a, q - 1, q) == 1 and math.gcd(pow(a, (q - 1) // F, q) - 1, q) == 1):
            a += 1
        return q, nodes + [{"n": q, "kind": "pock", "fs": [[len(nodes) - 1, 1, a]]}]


def mov_pair(rng, qbits, pbits, k):
    """primes p, q with ord_q(p) = k exactly: q = 1 (mod k), g of order k modulo q, p a prime congruent to g"""
    while True:
        q, nodes = prime_with_cert(rng, qbits, k)
        g = None
        for _ in range(200):
            h = pow(rng.randrange(2, q - 1), (q - 1) // k, q)
            if all(pow(h, j, q) != 1 for j in range(1, k)) and pow(h, k, q) == 1:
                g = h
                break
        if g is None:
            continue
        for _ in range(4000):
            t = rng.getrandbits(pbits - qbits) | (1 << (pbits - qbits - 1))
            p = g + t * q
            if p.bit_length() == pbits and p % 2 and pricert.is_prp(p):
                return p, q, nodes


def safe_group_cmds(rng, tier, suite=False):
    out = []

    def thr_list(k):
        return ",".join(str(x) for x in sorted({0, 1, max(k - 1, 0), k, k + 1, 2 * k, 50, 131}))

    def cmd(p, q, k, cls, ev=""):
        pn = olen(p)                                  # gfpCreate: the top octet of the modulus is non-zero
        qn = 8 * ((q.bit_length() + 63) // 64)
        out.append("safeGroup p=%s q=%s k=%d thr=%s cls=%s %s" % (hx(p, pn), hx(q, qn), k, thr_list(k if k else 3), cls, ev))
    sizes = [(56, 64, "1-word"), (72, 80, "2-words")] + ([] if suite else [(118, 128, "2-words-cert")])
    for qbits, pbits, scls in sizes:
        for k in (1, 2, 3, 5, 7, 12):
            p, q, nodes = mov_pair(rng, qbits, pbits, k)
            cmd(p, q, k, "k=%d:%s" % (k, scls), "" if q < pricert.MR_BOUND else "cert=" + cert_arg(nodes))
    if not suite:
        # the thresholds of the standards: embedding degree exactly 50 (bign), 31 and 131 (g12s), 256-bit pairs
        for k in ((50,) if tier == "quick" else (50, 31, 131)):
            p, q, nodes = mov_pair(rng, 250, 256, k)
            cmd(p, q, k, "k=%d:256-bit" % k, "cert=" + cert_arg(nodes))
    # order equal to the modulus (Semaev), composite orders (small factor / two primes)
    p = rand_prime(rng, 64)
    cmd(p, p, 0, "q=p")
    p = rand_prime(rng, 64); q = rand_prime(rng, 30) * rand_prime(rng, 30)
    cmd(p, q, 0, "q-composite:1-word")
    if not suite:
        p = rand_prime(rng, 128); f1 = rand_prime(rng, 60); q = f1 * rand_prime(rng, 64)
        cmd(p, q, 0, "q-composite:2-words", "fo=" + hx(f1, 8))
    return out


# ------------------------------------------------------------------ the suite for C07 / C19 (small, seconds)
def _suite_cmds(ctx, tier):
    rng = random.Random(int(ctx.seed) * 7919 + 12)
    cmds = []
    cmds += seed_cmds(rng, "quick")[::7]
    pc = prime_cmds(rng, "quick")
    cmds += [c for c in pc if " cert=" not in c and " w=1" not in c][::5]
    # priIsPrimeW (w=1) on the classes built around its base tables, for values that are a word in every configuration
    def small_w(c):
        a = next((t[3:] for t in c.split() if t.startswith("a=x")), "")
        return " w=1" in c and a[8:].strip("0") == "" and any(k in c for k in ("cls=strong-pseudoprime", "cls=carmichael", "cls=known-prime"))
    cmds += [c for c in pc if small_w(c)]
    cmds += tiny_curve_cmds(rng, "quick")[::9]
    cmds += safe_group_cmds(rng, "quick", suite=True)[::2]
    cmds += ["belsValM m=x87000000000000000000000000000000 len=16 cls=std0", "ppIrred a=x870000000000000000000000000000000100000000000000 cls=belt"]
    return ("\n".join(cmds) + "\n").encode()


SUITES = [
    {"name": "valid", "sources": ["drv_valid.c"], "libs": [], "trace": "Trace_Valid",
     "runs": [(["record", "quick", "date"], None), (["record", "quick", "pp"], None), (["exec"], _suite_cmds)]},
]
