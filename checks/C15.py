"""C15 — secret state is wiped before its memory is released.

  model     sm/Heap.tla driven by the abstract library of mc/MC_Heap.tla: TLC proves W (a block is
            freed only if wiped as a whole), WEnd, E3, E4, NoBadFree for the disciplined program
            exhaustively (all fault positions), and finds the violation for every realistic slip
            (memFree instead of blobClose, early exit without blobClose, lost block on a failed
            resize, missing null check, double close) — the monitor is not vacuous.
  record    the real secret-processing functions run under the interposed allocator
            (harness/wrap_alloc.c): success, every argument-error exit the contract table knows,
            failed authentications, and every allocation-failure exit k = 1..n+1.  At free time the
            whole requested size of the block is compared with memWipe's pattern.  The event
            traces are stepped through Heap's actions by TLC (trace/Trace_Heap.tla) with W, WEnd,
            NoBadFree as invariants.  Content search for the call's secrets in every freed block =
            second, weaker signal (evidence only, except blocks released through realloc).
"""
import os, re, json, collections
import vlib
import C09 as M

LEVEL = "model_checking"

SWITCHES = [("ChecksAlloc", "E3"), ("WipesOnClose", "W"), ("ClosesOnError", "E4|WEnd"),
            ("KeepsOnResizeFail", "E4|WEnd"), ("ClearsOnClose", "NoBadFree")]
INV = ["TypeOK", "TW", "TWEnd", "TNoBadFree"]


def run(ctx):
    ev = ctx.ev
    # ---- the abstract machine, exhaustively
    r = vlib.tlc("MC_Heap", coverage=True, timeout=600, quiet=True, workers=4)
    if vlib.tlc_infra_failed(r):
        ctx.note_inconclusive("MC_Heap gave no verdict rc=%s %s" % (r.rc, (r.error or "")[-300:]))
    elif r.rc != 0:
        ctx.note_inconclusive("the disciplined abstract library violates %s: model error, not a finding" % vlib.violated_property(r.out))
    ev.cov["states"] = r.distinct
    ev.cov["transitions"] = r.generated
    ev.cov["mc_depth"] = r.depth
    ev.cov["mc_action_coverage"] = {k.split("!")[1]: v[1] for k, v in r.coverage.items()}
    dead = [k for k, v in r.coverage.items() if v[1] == 0 and not k.endswith("MCInit")]
    if dead:
        ctx.note_inconclusive("MC_Heap: actions never taken: %s" % dead)
    base = open(vlib.find_spec("MC_Heap")[:-4] + ".cfg").read()

    def bad(sw, want):
        cfg = ctx.path("mc_%s.cfg" % sw)
        with open(cfg, "w") as f:
            f.write(base.replace(sw + " = TRUE", sw + " = FALSE"))
        rr = vlib.tlc("MC_Heap", cfg, timeout=600, workers=2, quiet=True)
        return sw, want, rr
    rejected = {}
    bads = vlib.parallel([(lambda s=s, w=w: bad(s, w)) for s, w in SWITCHES], n=5)
    for sw, want, rr in bads:
        got = vlib.violated_property(rr.out)
        rejected[sw] = got
        if rr.rc == 0 or not got or not re.fullmatch(want, got):
            ctx.note_inconclusive("MC_Heap with %s = FALSE: expected violation of %s, got %s (rc=%s)" % (sw, want, got, rr.rc))
    ev.cov["bad_library_variants_rejected"] = rejected
    ev.cov["traces_validated_against_impl"] = 0
    for sw, want, rr in bads:
        if sw == "WipesOnClose" and rr.rc == 12:
            ev.sample({"abstract_library": "WipesOnClose = FALSE (memFree instead of blobClose)", "violates": vlib.violated_property(rr.out),
                       "counterexample": [lab for lab, st in vlib.parse_tlc_trace(rr.out)]})

    # ---- the real library
    drv = M.build_driver()
    cases, g = M.gen_cases(ctx, pairwise=False)
    if cases is None:
        ctx.note_inconclusive("TLC gave no cases (rc=%s)" % g.rc)
        return
    have = M.driver_functions(drv)
    secret = sorted(set(c["fn"] for c in cases if c["secret"] and c["fn"] in have))
    fns = sorted(secret) if not os.environ.get("VERIF_FUNCS") else M.pick_functions(ctx, secret)     # every secret-processing function, in the quick tier too
    if "beltHash" in have and "beltHash" not in fns:
        fns = fns + ["beltHash"]                 # one non-secret function as the control of the self-test
    cases_by_fn = collections.defaultdict(list)
    for c in cases:
        cases_by_fn[c["fn"]].append(c)
    cmds = M.make_commands(ctx, cases, set(fns), faults_on_valid_sweeps=not ctx.quick)
    byid = {c["id"]: c for c in cmds}
    res, calls, crashes, hangs = M.run_commands(ctx, drv, cmds, "c15")
    for c, rc, err in hangs:
        ctx.note_inconclusive("driver stopped without a verdict at %s (rc=%s)" % (c["line"], rc))
    ev.cov["crashed_cases_skipped"] = len(crashes)          # crashes are C09's finding, not judged here
    resby = {o["id"]: o for o in res}
    acc, states, viol, rej, infra = M.validate_heap(ctx, calls, INV, "c15")
    for t in infra:
        ctx.note_inconclusive("Trace_Heap gave no verdict: " + t)
    for inv, fn, cid, evs in viol:
        o = resby.get(cid)
        blocks = [e["b"] for e in evs if e["e"] in ("Free", "Realloc") and not (e["wiped"] or e.get("zero", False))]
        if inv == "WEnd":
            blocks = evs[-1].get("dirty", [])
        if inv == "NoBadFree":
            blocks = ["unknown"]
        key = "%s:%s:%s:b%s" % (inv, fn, M.exit_path(o, evs), "_".join(str(b) for b in blocks[:4]))
        c = byid.get(cid // 1000)
        M.report(ctx, key, "%s: %s on exit path %s (rc=%s): %s" % (inv, fn, M.exit_path(o, evs), M.en(o["rc"]) if o else "?",
                      M.describe_heap(inv, evs) + ("; block(s) left behind dirty: %s" % evs[-1].get("dirty") if inv == "WEnd" else "")),
                      {"command": (c["line"] if c else "") + (" k0=%d" % o["failAt"] if o and o["failAt"] else ""),
                       "events": evs, "result": o,
                       "replay": "echo '<command>' | VERIF_SEED=%d build/bin/drv_err-asanrel-* /dev/stdout /dev/stdout" % ctx.seed})
    for fn, cid, evs, line in rej:
        o = resby.get(cid)
        ctx.violation("reject:%s:%s" % (fn, M.exit_path(o)), "allocator trace of %s is not a behaviour of sm/Heap.tla: line %s cannot be taken" % (fn, line),
                      {"events": evs, "result": o})
    ev.cov["traces_validated_against_impl"] = acc
    ev.cov["trace_states"] = states

    # ---- binding self-tests
    ev.cov["selftests_rejected"] = selftest(ctx, calls, fns)

    # ---- evidence
    paths = collections.Counter()
    frees = unw = hits = 0
    for cid, evs in calls.items():
        o = resby.get(cid)
        p = M.exit_path(o)
        paths[re.sub(r"_k\d+_of_\d+", "", p).split("_")[0] if p.startswith("auth") else re.sub(r"_k\d+_of_\d+", "", p)] += 1
        for e in evs:
            if e["e"] in ("Free", "Realloc"):
                frees += 1
                unw += 0 if (e["wiped"] or e.get("zero", False)) else 1
                hits += 1 if e["hit"] else 0
    ev.cov["exit_paths_exercised"] = dict(paths)
    ev.cov["blocks_freed_observed"] = frees
    ev.cov["blocks_freed_unwiped"] = unw
    ev.cov["weak_signal_secret_found_in_freed_block"] = hits
    ev.cov["secret_functions_in_contract"] = len(secret)
    ev.cov["functions"] = fns
    ev.cov["abstract_machine_exhaustive"] = True     # 3 allocations, 2 calls, every fault position
    ev.cov["real_code"] = "enumerated exits (success, every argument-error exit of the contract, failed authentication, every fault position) x seeded data"
    n = 0
    for cid, evs in calls.items():
        if any(e["e"] == "Free" for e in evs) and n < 3:
            ev.sample({"call": cid, "events": evs}); n += 1
    ev.assume("a block counts as overwritten when its whole requested size carries memWipe's pattern (any start counter) or zeros at free time")
    ev.assume("library built with exact-size blobs (BEE2_VERIF_EXACT_BLOB), so the requested size is the blob's whole allocation")
    ev.assume("the set of secret-processing functions is the `secret` attribute of sm/ErrContract.tla (functions taking a key, private key, password or share)")


def selftest(ctx, calls, fns):
    n_ok = 0
    muts = []
    sec = nonsec = None
    for cid, evs in calls.items():
        b = next((e for e in evs if e["e"] == "CallBegin"), None)
        if b and any(e["e"] == "Free" and e["wiped"] for e in evs):
            if b["secret"] and sec is None:
                sec = evs
            if not b["secret"] and nonsec is None:
                nonsec = evs
    if sec:
        i = next(i for i, e in enumerate(sec) if e["e"] == "Free")
        m = [dict(e) for e in sec]; m[i]["wiped"] = False; m[i]["zero"] = False
        muts.append(("W", m))                                   # flipped snapshot verdict
        m = [dict(e) for e in sec]; m[i]["n"] += 8
        muts.append(("reject", m))                              # size bound to the allocation
        m = [dict(e) for e in sec if e is not sec[i]]
        m[-1]["live"] += 1; m[-1]["dirty"] = [sec[i]["b"]]
        muts.append(("WEnd", m))                                # blobClose dropped: block left behind dirty
        m = [dict(e) for e in sec]
        for e in m:
            if e["e"] == "CallBegin":
                e["secret"] = False
        muts.append(("reject", m))                              # secret attribute bound to the contract table
    if nonsec:
        i = next(i for i, e in enumerate(nonsec) if e["e"] == "Free")
        m = [dict(e) for e in nonsec]; m[i]["wiped"] = False; m[i]["zero"] = False
        muts.append(("accepted", m))                            # W only binds secret-processing calls
    return M.run_heap_selftests(ctx, muts, INV, "c15self")
