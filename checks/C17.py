"""C17 — token layer: CV certificates, secure messaging, key containers detect tampering.

 (1) secure messaging as a state machine (spec/sm/BtokSM.tla): TLC explores every sequence of <= 6
     operations of two peers (CtrInc / CmdWrap / CmdUnwrap / RespWrap / RespUnwrap / Alter) and checks the
     property on the model (MC_BtokSM); EVERY explored behaviour is replayed on the real btokSM* functions
     (return codes, counter parities, recovered APDU = protected APDU); a sample is logged in full and
     validated call by call (Trace_BtokSM: Pattern S, values of the protected codes included);
 (2) values: every Lc/Le form x data length, and every single-octet alteration of protected commands and
     responses, recomputed by TLC from the format (belt-cfb + belt-mac + the 0x87/0x97/0x8E objects)
     (Trace_Btok, Pattern F); seeded random dialogues (Trace_BtokSM);
 (3) CV certificates (spec/sm/CvcChain.tla): TLC enumerates chains of depth 1..3 x key lengths x one
     alteration (MC_CvcChain) and decides every call of the battery; the harness builds REAL certificates
     (real bign signatures, forged ones where the library refuses to issue) and the codes are compared;
     every single-octet alteration of a signed certificate per key length is judged by the structural
     parse (Codecs!CvcDec) + content check + on-curve test in TLC;
 (4) bpki containers: value = DER skeleton + belt-kwp under the PBKDF2 key; right / wrong password;
     every single-octet alteration.
"""
import os, json, glob, re, time
import vlib

LEVEL = "model_checking"

DATE_KEY = "cvc:date-octet>9"      # tmDateIsValid2 accepts "digits" above 9 (same root cause as C12's finding)


_hits = {}


def viol(ctx, key, text, data=None):
    """one VIOLATION per structural key and run; further hits of the same key are counted in the evidence"""
    _hits[key] = _hits.get(key, 0) + 1
    ctx.ev.cov["hits_per_key"] = dict(sorted(_hits.items())[:60])
    if _hits[key] == 1:
        ctx.violation(key, text, data)


def brief(row, cap=40):
    out = {}
    for k, v in row.items():
        if isinstance(v, list) and len(v) > cap:
            out[k] = v[:cap] + ["...(%d)" % len(v)]
        elif isinstance(v, dict):
            out[k] = brief(v, cap)
        else:
            out[k] = v
    return out


def crashed(ctx, what, rc, err):
    m = re.search(r"#\d+ 0x[0-9a-f]+ in (\w+) /repo/src/([\w/\.]+):(\d+)", err or "")
    site = "%s@%s" % (m.group(1), m.group(2)) if m else "rc=%d" % rc
    viol(ctx, "crash:%s:%s" % (what, site), "driver stopped inside a library call during %s (rc=%d): %s" % (what, rc, (err or "")[-1200:]), (err or "")[-4000:])


# ------------------------------------------------------------------ secure messaging: replay of TLC's behaviours

def sm_compare(pred, res):
    """pred: 'iT,wT1:O,uC:L:-,...'; res: 'i10,wO,uLn255,...' -> list of (key, text) disagreements."""
    bad = []
    P, R = pred.split(","), res.split(",")
    if len(P) != len(R):
        return [("sm:replay:length", "behaviour %s executed as %s" % (pred, res))]
    cnt = {"T": 0, "C": 0}
    for p, r in zip(P, R):
        f = p.split(":")
        if f[0][0] == "i":
            cnt[f[0][1]] += 1
            want = "i%d%d" % (cnt["T"] % 2, cnt["C"] % 2)
            if r != want:
                bad.append(("sm:inc:%s:parity" % f[0][1], "after %s the counter parities are %s, the specification says %s" % (p, r, want)))
        elif f[0][0] == "w":
            if r[0] != "w" or r[1] not in f[1]:
                bad.append(("sm:%s:exp=%s:got=%s" % (f[0][:2], f[1], r[1:2]), "Wrap: admissible %s, real code %s" % (f[1], r)))
        elif f[0][0] == "u":
            rc, same, plen = r[1], r[2], int(r[3:] or 0)
            if rc not in f[1]:
                bad.append(("sm:%s:exp=%s:got=%s" % (f[0], f[1], rc), "Unwrap: admissible %s, real code %s" % (f[1], r)))
            elif rc == "O" and f[2] == "y" and same != "y":
                bad.append(("sm:%s:in-step:recovered-differs" % f[0], "accepted in step but the recovered APDU differs from the protected one"))
            elif rc == "O" and f[2] == "n" and same == "y" and plen >= 8:
                bad.append(("sm:%s:desync:recovered-equal" % f[0], "unwrapped at another counter, yet the same %d data octets came back (counter not used as synchro?)" % plen))
        elif f[0][0] == "a":
            if r != "a1":
                bad.append(("sm:alter:not-applied", "harness could not apply %s" % p))
    return bad


def run_sm(ctx, drv_asan, env):
    ev = ctx.ev
    out = {"states": 0, "trans": 0, "replayed": 0}
    cfg = ctx.path("mc_sm.cfg")
    maxlen = 6
    with open(cfg, "w") as f:
        f.write(open(vlib.find_spec("MC_BtokSM")[:-4] + ".cfg").read().replace("MaxLen = 6", "MaxLen = %d" % maxlen))
    r = vlib.tlc("MC_BtokSM", cfg, workers=4, timeout=900, quiet=True)
    if vlib.tlc_infra_failed(r):
        ctx.note_inconclusive("MC_BtokSM gave no verdict (rc=%s) %s" % (r.rc, (r.error or "")[-300:]))
        return out
    if r.rc != 0:
        # a failure of the abstract model alone is a specification error, never reported as a violation
        ctx.note_inconclusive("BtokSM violates its own property %s (specification error): %s" % (vlib.violated_property(r.out), (r.violation or "")[:400]))
        return out
    out["states"], out["trans"] = r.distinct, r.generated
    beh = sorted(p[4:-1] for p in r.prints if p.startswith('"@B '))
    ev.cov["sm_behaviours_explored"] = len(beh)
    ev.cov["sm_max_len"] = maxlen
    if not beh:
        ctx.note_inconclusive("MC_BtokSM printed no behaviours")
        return out

    def ops_of(b):
        return ",".join(t.split(":")[0] for t in b.split(","))
    # a structural sample is logged in full (verbose) for the trace modules
    step = max(1, len(beh) // (120 if ctx.quick else 1500))
    shards = vlib.shard(list(enumerate(beh)), 6)

    def one(sh):
        stdin = "".join("sm id=%d ops=%s v=%d\n" % (i, ops_of(b), 1 if i % step == 0 else 0) for i, b in sh).encode()
        return vlib.run_harness(drv_asan, ["sm_replay"], stdin=stdin, env=env, timeout=1500)
    results = vlib.parallel([(lambda sh=sh: one(sh)) for sh in shards], n=6)
    verbose = []
    seen = set()
    nrep = 0
    for (rc, o, err), sh in zip(results, shards):
        if rc != 0:
            crashed(ctx, "sm_replay", rc, err)
        for l in o.splitlines():
            if not l.endswith("}"):
                continue
            x = json.loads(l)
            if x["e"] != "Res":
                verbose.append(x)
                continue
            nrep += 1
            seen.add(x["id"])
            for key, text in sm_compare(beh[x["id"]], x["res"]):
                viol(ctx, key, "secure messaging: %s; behaviour %s -> %s" % (text, beh[x["id"]], x["res"]),
                              {"behaviour": beh[x["id"]], "real": x["res"], "replay": "echo 'sm id=%d ops=%s v=1' | drv_btok sm_replay" % (x["id"], ops_of(beh[x["id"]]))})
    if len(seen) != len(beh) and all(rc == 0 for rc, _, _ in results):
        ctx.note_inconclusive("sm_replay answered %d of %d behaviours" % (len(seen), len(beh)))
    out["replayed"] = nrep
    out["verbose"] = verbose
    ev.sample({"behaviour": beh[len(beh) // 3], "meaning": "ops with the admissible codes the specification predicts; replayed on btokSM*"})
    return out


def judge_trace_sm(ctx, rows, what):
    """Pattern S: rows (Reset/Op lines) through Trace_BtokSM; returns number of dialogues validated."""
    if not rows:
        return 0
    p = ctx.path("tr_%s.ndjson" % what)
    vlib.write_ndjson(p, rows)
    r = vlib.tlc("Trace_BtokSM", env={"TRACE": p}, workers=1, timeout=1500, quiet=True)
    ctx.ev.add("tlc_states_trace", r.distinct)
    if r.rc == 0:
        return sum(1 for x in rows if x["e"] == "Reset")
    if vlib.tlc_infra_failed(r) and "@REJECT" not in r.out:
        ctx.note_inconclusive("Trace_BtokSM (%s) gave no verdict rc=%s %s" % (what, r.rc, (r.error or "")[-300:]))
        return 0
    m = re.search(r'"@REJECT",\s*(\d+)', r.out)
    inv = vlib.violated_property(r.out)
    at = int(m.group(1)) if m else max(1, r.depth)
    at = min(at, len(rows))
    row = rows[at - 1]
    j = at - 1
    while j > 0 and rows[j]["e"] != "Reset":
        j -= 1
    hist = ["%s%s" % (x.get("op", "reset"), ":" + x["rc"] if "rc" in x else "") for x in rows[j:at]]
    key = "sm:trace:%s:%s:rc=%s" % (inv or "rejected", row.get("op"), row.get("rc"))
    viol(ctx, key, "recorded dialogue (%s) is not a behaviour of BtokSM at line %d: %s (history %s)" % (what, at, inv or "no action of the specification matches the logged call", hist),
                  {"line": brief(row), "history": hist})
    return 0


def judge_lines(ctx, rows, what, keyfn, timeout=1500):
    """Pattern F through Trace_Btok; returns number of lines evaluated."""
    if not rows:
        return 0
    path = ctx.path("lines_%s.ndjson" % re.sub(r"[^a-z]", "_", what))     # named here: judges run concurrently
    vlib.write_ndjson(path, rows)
    n, bad, r = vlib.validate_lines(ctx, "Trace_Btok", path, timeout=timeout, workers=4)
    if n < len(rows):
        n, bad, r = vlib.validate_lines(ctx, "Trace_Btok", path, timeout=timeout, workers=4)
        if n < len(rows):
            ctx.note_inconclusive("%s: TLC evaluated %d of %d lines (rc=%s)" % (what, n, len(rows), r.rc))
    ctx.ev.add("tlc_states_lines", r.distinct)
    for i in bad:
        row = rows[i - 1]
        viol(ctx, keyfn(row), "%s: recorded call differs from what the specification defines (line %d): op=%s" % (what, i, row.get("op")),
                      {"line": brief(row, 400), "how": "re-run ./check C17; the line is judged by spec/trace/Trace_Btok.tla"})
    return n


def sm_key(row):
    a = row.get("cmd") or row.get("resp") or {}
    data = a.get("cdf") if "cdf" in a else a.get("rdf", [])
    le = a.get("rdf") if "cdf" in a else "-"
    if row.get("op") in ("cmdW", "respW"):
        return "smval:%s:data=%d:le=%s:rc=%s" % (row["op"], len(data), le, row.get("rc"))
    return "smval:%s:len=%d:rc=%s" % (row.get("op"), len(row.get("apdu", [])), row.get("rc"))


def date_region(cert, pos):
    """is position pos (1-based) inside the value of from / until of the certificate body?"""
    for tag in ((0x5F, 0x25, 6), (0x5F, 0x24, 6)):
        for i in range(len(cert) - 8):
            if cert[i] == tag[0] and cert[i + 1] == tag[1] and cert[i + 2] == 6 and i + 3 < pos <= i + 9:
                return True
    return False


def cvc_alt_key(row):
    if row.get("op") == "cvcAltSelf":
        return "cvcAltSelf:L=%d:pos=%d:rcs=%s" % (row["L"], row["pos"], row["rcs"])
    if row.get("op") == "cvcAlt":
        if row["mask"] and date_region(row["orig"], row["pos"]) and row["cert"][row["pos"] - 1] > 9 and row["rc0"] == "OK":
            return DATE_KEY
        return "cvcAlt:L=%d:pos=%d:rc0=%s:rck=%s" % (row["L"], row["pos"], row["rc0"], row["rck"])
    reg = ""
    if row.get("cls") == "altered" and row.get("pos"):
        o = row.get("orig", [])
        # where the altered octet lies: salt (after 04 08), iteration count (02 02 after the salt), ciphertext (the last OCTET STRING), skeleton
        i = next((j for j in range(len(o) - 10) if o[j] == 4 and o[j + 1] == 8 and o[j + 10] == 2), -1)
        pos = row["pos"] - 1
        ed = len(o) - (len(row.get("key", [])) + 16 + 30)
        reg = ":" + ("salt" if i >= 0 and i + 2 <= pos < i + 10 else "iter" if i >= 0 and i + 12 <= pos < i + 12 + o[i + 11] else "ciphertext" if pos >= ed else "skeleton")
        reg += ":%s" % ("lowered" if reg == ":iter" and row["epki"][pos] < o[pos] else "mask=%02x" % row.get("mask", 0)) if reg == ":iter" else ""
    return "bpki:%s:%s:%s%s:klen=%d:rc=%s" % (row.get("op"), row.get("kind"), row.get("cls"), reg, len(row.get("key", [])), row.get("rc"))


# ------------------------------------------------------------------ CV certificates: replay of TLC's cases

def hx(a):
    return "x" + "".join("%02x" % b for b in a)


def cvc_cmd(c):
    s = "cvc id=%d n=%d" % (c["id"], c["d"])
    for i, lv in enumerate(c["lv"]):
        s += " L%d=%d a%d=%s h%d=%s f%d=%s u%d=%s e%d=%s s%d=%s pk%d=%d sg%d=%s" % (
            i, lv["L"], i, hx(lv["authority"]), i, hx(lv["holder"]), i, hx(lv["from"]), i, hx(lv["until"]),
            i, hx(lv["eid"]), i, hx(lv["esign"]), i, lv["pk"], i, lv["sg"])
    if c["date"]:
        s += " date=" + hx(c["date"])
    return s + "\n"


def run_cvc(ctx, drv, env):
    ev = ctx.ev
    gdir = ctx.path("gen_cvc")
    os.makedirs(gdir, exist_ok=True)
    r = vlib.tlc("MC_CvcChain", env={"GEN_DIR": gdir, "GEN_TIER": ctx.tier}, workers=4, timeout=1500, quiet=True)
    if vlib.tlc_infra_failed(r):
        ctx.note_inconclusive("MC_CvcChain gave no verdict rc=%s %s" % (r.rc, (r.error or "")[-300:]))
        return 0, 0, 0
    if r.rc != 0:
        ctx.note_inconclusive("CvcChain violates its own property (specification error): %s" % (r.violation or "")[:400])
        return 0, 0, 0
    cases = sorted((json.load(open(f)) for f in glob.glob(os.path.join(gdir, "*.json"))), key=lambda c: c["id"])
    rc, out, err = vlib.run_harness(drv, ["cvc_replay"], stdin="".join(cvc_cmd(c) for c in cases).encode(), env=env, timeout=1500)
    if rc != 0:
        crashed(ctx, "cvc_replay", rc, err)
    res = {}
    for l in out.splitlines():
        if l.endswith("}"):
            x = json.loads(l)
            res.setdefault(x["id"], {})[(x["fn"], x["lvl"])] = x
    ncalls = 0
    for c in cases:
        got = res.get(c["id"], {})
        lens = "-".join(str(lv["L"]) for lv in c["lv"])
        for call in c["calls"]:
            g = got.get((call["fn"], call["lvl"]))
            if g is None:
                if rc == 0:
                    ctx.note_inconclusive("cvc case %d (%s): the harness did not perform %s at level %d" % (c["id"], c["alt"], call["fn"], call["lvl"]))
                continue
            ncalls += 1
            ok = g["rc"] in call["exp"] and not (g["rc"] == "OK" and g.get("same") is False)
            if not ok:
                datey = re.search(r"invalid[89]$|digit>9", c["alt"]) is not None
                key = DATE_KEY if datey and g["rc"] == "OK" else "cvc:%s:%s:%s:got=%s" % (call["fn"], c["alt"], ("same-level" if call["lvl"] + 1 == c["t"] else "child+%d" % (call["lvl"] + 1 - c["t"])) if c["t"] else "-", g["rc"] if g.get("same") is not False else "OK-but-content-differs")
                viol(ctx, key, "btokCVC%s on a chain of depth %d (key lengths %s) with alteration '%s' at level %d: the specification admits %s, the real code returns %s%s"
                              % (call["fn"], c["d"], lens, c["alt"], c["t"], call["exp"], g["rc"], "" if g.get("same") is not False else " with a different content"),
                              {"case": c, "real": g, "replay": cvc_cmd(c).strip() + "   | drv_btok cvc_replay"})
        extra = set(got) - set((k["fn"], k["lvl"]) for k in c["calls"])
        if extra:
            ctx.note_inconclusive("cvc case %d: calls not predicted by the specification: %s" % (c["id"], sorted(extra)))
    ev.cov["cvc_cases"] = len(cases)
    ev.cov["cvc_calls_compared"] = ncalls
    ev.cov["cvc_alterations"] = sorted(set(c["alt"] for c in cases))[:80]
    if cases:
        c = cases[len(cases) // 2]
        ev.sample({"cvc_case": c["id"], "depth": c["d"], "alteration": c["alt"], "level": c["t"], "calls": c["calls"][:6]})
    return r.distinct, r.generated, len(cases)


# ------------------------------------------------------------------ binding self-tests

def selftest(ctx, sm_rows, cvc_rows, bpki_rows, dialog_rows):
    ev = ctx.ev
    mut = []
    for r in [x for x in sm_rows if x.get("op") in ("cmdW", "respW") and x.get("rc") == "OK"][:40:10]:
        m = dict(r); a = list(r["apdu"]); a[len(a) // 2] ^= 1; m["apdu"] = a; mut.append(m)          # wrong protected code
    for r in [x for x in sm_rows if x.get("op") in ("cmdU", "respU") and x.get("rc") == "OK"][:40:10]:
        m = dict(r); m["rc"] = "BAD_MAC"; mut.append(m)                                              # wrong return code
    for r in [x for x in sm_rows if x.get("op") in ("cmdU", "respU") and x.get("rc") == "BAD_LOGIC"][:2]:
        m = dict(r); m["rc"] = "OK"; m["out"] = {}; m["sizeok"] = True; mut.append(m)                # parity refusal turned into acceptance
    for r in [x for x in cvc_rows if x.get("mask") and x.get("rck") != "OK"][:300:100]:
        m = dict(r); m["rck"] = "OK"; mut.append(m)                                                  # altered certificate "accepted"
    for r in [x for x in bpki_rows if x.get("op") == "bpkiW" and x.get("rc") == "OK"][:2]:
        m = dict(r); e = list(r["epki"]); e[-3] ^= 4; m["epki"] = e; mut.append(m)
    for r in [x for x in bpki_rows if x.get("cls") == "wrongpwd" and x.get("rc") != "OK"][:2]:
        m = dict(r); m["rc"] = "OK"; m["out"] = r["key"]; mut.append(m)                              # wrong password "opens" the container
    rejected = 0
    if mut:
        mp = ctx.path("selftest_lines.ndjson")
        vlib.write_ndjson(mp, mut)
        n, bad, r = vlib.validate_lines(ctx, "Trace_Btok", mp, timeout=900, workers=4)
        rejected = len(bad)
        if n == len(mut) and len(bad) != len(mut):
            ctx.note_inconclusive("binding self-test: %d of %d corrupted lines were not rejected by Trace_Btok" % (len(mut) - len(bad), len(mut)))
    # Pattern S: a dropped event and a flipped counter parity must make the trace unacceptable
    tr_rej = 0
    tr_tot = 0
    if dialog_rows:
        first = []
        for x in dialog_rows:
            if x["e"] == "Reset" and first:
                break
            first.append(x)
        variants = []
        incs = [i for i, x in enumerate(first) if x.get("op") == "inc"]
        if incs:
            variants.append(first[:incs[0]] + first[incs[0] + 1:])                  # dropped CtrInc
        ws = [i for i, x in enumerate(first) if x.get("op") in ("cmdW", "respW")]
        if ws:
            v = [dict(x) for x in first]
            v[ws[0]]["rc"] = "OK" if v[ws[0]]["rc"] != "OK" else "BAD_LOGIC"         # return code flipped
            variants.append(v)
        for k, v in enumerate(variants):
            p = ctx.path("selftest_tr%d.ndjson" % k)
            vlib.write_ndjson(p, v)
            r = vlib.tlc("Trace_BtokSM", env={"TRACE": p}, workers=1, timeout=600, quiet=True)
            tr_tot += 1
            if r.rc != 0 and ("@REJECT" in r.out or not vlib.tlc_infra_failed(r)):
                tr_rej += 1
        if tr_rej != tr_tot:
            ctx.note_inconclusive("binding self-test: %d of %d corrupted dialogues were accepted by Trace_BtokSM" % (tr_tot - tr_rej, tr_tot))
    ev.cov["selftest_corrupted_lines"] = len(mut)
    ev.cov["selftest_lines_rejected"] = rejected
    ev.cov["selftest_corrupted_dialogues"] = tr_tot
    ev.cov["selftest_dialogues_rejected"] = tr_rej


def read_rows(path):
    rows = []
    for l in open(path):
        l = l.strip()
        if l.endswith("}"):
            try:
                rows.append(json.loads(l))
            except ValueError:
                pass
    return rows


def run(ctx):
    ev = ctx.ev
    _hits.clear()
    env = {"VERIF_SEED": ctx.seed}
    drv_asan = vlib.harness("drv_btok", ["drv_btok.c"], "asan")      # SM: exact-size states and buffers under ASan
    drv = vlib.harness("drv_btok", ["drv_btok.c"], "rel")            # certificates / containers (bign): release build
    tier = ctx.tier

    # ---- harness runs (record direction)
    def rec(binary, args, name, timeout=1500):
        p = ctx.path(name)
        rc, _, err = vlib.run_harness(binary, args, out_path=p, env=env, timeout=timeout)
        if rc != 0:
            crashed(ctx, args[0], rc, err)
        return read_rows(p)
    jobs = {
        "forms": lambda: rec(drv_asan, ["sm_forms"], "sm_forms.ndjson"),
        "smalt": lambda: rec(drv_asan, ["sm_alter", tier], "sm_alter.ndjson"),
        "dialog": lambda: rec(drv_asan, ["sm_record", 60 if ctx.quick else 1500, 14], "sm_record.ndjson"),
        "cvcalt": lambda: rec(drv, ["cvc_alter", tier], "cvc_alter.ndjson"),
        # 7 containers (4 private-key lengths, 3 share lengths), one process each: every octet x 5..6 alterations
        "bpki": lambda: sum(vlib.parallel([(lambda k=k: rec(drv, ["bpki", tier, k], "bpki_%d.ndjson" % k, timeout=3000)) for k in range(7)], n=7), []),
    }
    names = list(jobs)
    got = dict(zip(names, vlib.parallel([jobs[k] for k in names], n=5)))

    # ---- everything that needs TLC, in parallel (each run with 4 workers; the machine is shared)
    res = {}

    def t_sm():
        res["sm"] = run_sm(ctx, drv_asan, env)

    def t_cvc():
        res["cvc"] = run_cvc(ctx, drv, env)

    def t_forms():
        res["forms"] = judge_lines(ctx, got["forms"] + got["smalt"], "secure-messaging values", sm_key)

    def t_cvcalt():
        res["cvcalt"] = judge_lines(ctx, got["cvcalt"], "altered certificates", cvc_alt_key, timeout=3000)

    def t_bpki():
        res["bpki"] = judge_lines(ctx, got["bpki"], "bpki containers", cvc_alt_key, timeout=3500)

    def t_dialog():
        res["dialog"] = judge_trace_sm(ctx, got["dialog"], "dialogues")
    vlib.parallel([t_sm, t_cvc, t_forms, t_cvcalt, t_bpki, t_dialog], n=6)

    sm = res.get("sm") or {}
    # the verbose sample of TLC's behaviours: Pattern S (+ values)
    vrows = sm.get("verbose", [])
    nverb = judge_trace_sm(ctx, vrows, "replayed-behaviours") if vrows else 0
    # "altered => rejected" stated on the raw lines as well (independent of any value computation)
    for r in got["smalt"]:
        if r.get("op") in ("cmdU", "respU") and r.get("rc") == "OK":
            viol(ctx, "sm:alter-sweep:%s:len=%d:accepted" % (r["op"], len(r["apdu"])), "an altered protected APDU was accepted", {"line": brief(r, 400)})
    for r in got["cvcalt"]:
        if r.get("op") == "cvcAltSelf":
            if r.get("mask") and r.get("rcs") == "OK":
                viol(ctx, "cvcAltSelf:L=%d:pos=%d:accepted" % (r["L"], r["pos"]), "an altered self-signed certificate passed the self-check mode of btokCVCUnwrap", {"line": brief(r, 400)})
            continue
        if r.get("mask") and (r.get("rck") == "OK" or r.get("rcv") == "OK" or r.get("rcv2") == "OK"):
            viol(ctx, "cvcAlt:L=%d:pos=%d:accepted-with-key" % (r["L"], r["pos"]), "an altered certificate verified under the issuer's key", {"line": brief(r, 400)})

    selftest(ctx, got["forms"], got["cvcalt"], got["bpki"], got["dialog"])

    cvc_states, cvc_trans, cvc_cases = res.get("cvc") or (0, 0, 0)
    ev.cov["states"] = sm.get("states", 0) + cvc_states
    ev.cov["transitions"] = sm.get("trans", 0) + cvc_trans
    ev.cov["sm_behaviours_replayed"] = sm.get("replayed", 0)
    ev.cov["sm_behaviours_logged_in_full_and_validated"] = nverb
    ev.cov["dialogues_validated"] = res.get("dialog", 0)
    ev.cov["sm_value_lines"] = res.get("forms", 0)
    ev.cov["cvc_altered_certificates_judged"] = res.get("cvcalt", 0)
    ev.cov["bpki_lines"] = res.get("bpki", 0)
    ev.cov["traces_validated_against_impl"] = (sm.get("replayed", 0) + nverb + res.get("dialog", 0) + cvc_cases
                                               + res.get("forms", 0) + res.get("cvcalt", 0) + res.get("bpki", 0))
    ev.cov["exhaustive"] = ("BtokSM: all operation sequences of length <= 6 (2 peers, 4 alteration classes, data / no data); "
                            "CvcChain: depth 1..3 x every listed alteration x %s key-length patterns" % ("6" if not ctx.quick else "2 rotating"))
    for name in ("forms", "cvcalt", "bpki"):
        rows = got[name]
        if rows:
            ev.sample(brief(rows[min(len(rows) - 1, 3)], 24))
    ev.assume("the protected format is the one written at the head of btok_sm.c (objects 0x87 / 0x97 / 0x8E, belt-cfb with the counter as synchro, "
              "belt-mac over CLA* INS P1 P2 and the objects 0x87, 0x97; key1/key2 = belt-keyrep(key, 0, <1>/<2>)); btok.h gives only the scheme")
    ev.assume("the MAC does not cover the counter (by design): a code unwrapped at another counter of the right parity is accepted and decrypts to other data; "
              "replay detection is not claimed, nor is the form of Lc (not covered by the MAC) for codes that are not single-octet alterations")
    ev.assume("btok.h does not say which error code a failing btokCVC* condition produces: when several conditions fail any of their codes is admitted; "
              "accept / reject is exact")
    ev.assume("CV signatures are symbolic terms sig(key, body) in the specification and real bign signatures in the harness (bign itself: C02)")
    ev.assume("bpki container values in the quick tier use the PBKDF2 key computed by the library's beltPBKDF2 (checked against its definition by C01); "
              "the thorough tier recomputes two containers from the password in TLC (10000 iterations)")
